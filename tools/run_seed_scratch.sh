#!/bin/bash
# usage: run_seed_scratch.sh <seed-dir-name> <prop>...   like run_seed.sh, but on a scratch copy of /repo (never touches /repo)
S=$1; shift
tmp=$(mktemp -d /tmp/seedcopy.XXXX); trap 'rm -rf $tmp' EXIT
(git -C /repo archive HEAD | tar -x -C $tmp) && patch -p1 -s --no-backup-if-mismatch -d $tmp -i /verif/seeded/$S/patch.diff || { echo "seed=$S: patch does not apply"; exit 2; }
for p in "$@"; do
  out=$(cd /verif && ${GOVC_BIN:-./bin/govc} check --no-evidence --repo $tmp $p 2>&1); rc=$?
  echo "seed=$S prop=$p rc=$rc :: $(echo "$out" | grep -c '^VIOLATION') violations :: $(echo "$out" | grep '^VIOLATION' | sed 's/.*obligation=//' | head -4 | tr '\n' ' ')"
done
