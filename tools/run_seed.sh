#!/bin/bash
# usage: run_seed.sh <seed-dir-name> <prop>...   applies the patch to /repo, runs the checks, undoes it
S=$1; shift
if [ -n "$(git -C /repo status --porcelain)" ]; then echo "/repo has uncommitted changes: commit them first"; exit 2; fi
git -C /repo apply /verif/seeded/$S/patch.diff || exit 2
for p in "$@"; do
  out=$(cd /verif && ./bin/govc check --no-evidence $p 2>&1); rc=$?
  echo "seed=$S prop=$p rc=$rc :: $(echo "$out" | grep -c '^VIOLATION') violations :: $(echo "$out" | grep '^VIOLATION' | sed 's/.*obligation=//' | head -4 | tr '\n' ' ')"
done
git -C /repo checkout -- .
