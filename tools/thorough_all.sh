#!/bin/bash
# Runs the thorough tier of every claimed property and prints one summary line each (used with `vp run`).
cd "$(dirname "$0")/.."
export VERIF_ROOT=$PWD GOFLAGS=-mod=mod GOPROXY=off GOSUMDB=off GOTOOLCHAIN=local
mkdir -p bin && (cd govc && go build -o ../bin/govc .) || exit 2
rc_all=0
for p in ${@:-C01 C02 C03 C04 C05 C06 C07 C08 C09 C10 C11 C12 C13 C14 C15 C16 C17 C18 C19 C20}; do
  t0=$(date +%s)
  out=$(./bin/govc check --thorough $p 2>&1); rc=$?
  echo "$p rc=$rc $(( $(date +%s) - t0 ))s :: $(echo "$out" | grep -v '^WARNING' | tail -2 | tr '\n' ' ' | cut -c1-300)"
  [ $rc -ne 0 ] && rc_all=1
  python3 - "$p" <<'PY'
import json,sys
try:
    c=json.load(open(f"evidence/{sys.argv[1]}.json"))["coverage"].get("sensitivity_corpus")
    if c: print("   corpus:", c["changes"], "changes,", c["detected"], "detected, missed:", c["missed"], "skipped:", c["skipped"])
except Exception as e: print("   (no evidence)", e)
PY
done
exit $rc_all
