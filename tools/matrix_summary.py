#!/usr/bin/env python3
# Reads seeded/matrix.json (written by tools/seed_matrix.sh) and prints a markdown summary: which kind of obligation
# catches which stored change (by the first failing obligation of each).  Also rewrites the block between the markers
# <!-- MATRIX-SUMMARY-BEGIN --> and <!-- MATRIX-SUMMARY-END --> in DESIGN.md when called with --update.
import json, re, sys, collections
rows = json.load(open('/verif/seeded/matrix.json'))
cats = [
 (r'subset:(unmodelled|regex|slice|conversion|cannot|the write set)', 'the function left the verified subset (`subset:…`: unmodelled library call, pattern outside the regex fragment, …) — reported as a violation because the contract can no longer be discharged'),
 (r'contract-binding|receiver-kind', 'the contract no longer binds (`contract-binding`, `receiver-kind-changed`)'),
 (r'^lemma|/lemma', 'regular-language lemmas over the patterns (`lemma.*`)'),
 (r'~pos|ParseSyslogMessage/ensures:pipe', 'position lemma / `ensures:pipe` of `ParseSyslogMessage`'),
 (r'/atomic:|/guard:|/lockorder:|unlock-unheld', 'lock discipline (`atomic:*`, `guard:*`, `lockorder:*`)'),
 (r'/blocks:', 'blocking-effect obligations (`blocks:*`)'),
 (r'/assert_at', '`assert_at` clauses at call sites'),
 (r'/inv-(step|entry)', 'loop invariants (`inv-step`, `inv-entry`)'),
 (r'/frame:', 'frame obligations (`frame:*`)'),
 (r'^wiring/', 'structural facts on the SSA of `RunNamedPipe` (`wiring/*`)'),
 (r'/chaninv:', 'channel message invariant (`chaninv:*`)'),
 (r'/tokens:', 'token tracking (`tokens:*`)'),
 (r'/(bounds|nil|nilmap|overflow|divzero|panic|close-closed|pre:)', 'safety sweep and callee preconditions (`bounds`, `nil`, `pre:*`, …)'),
 (r'/(cover|vacuity)', 'canaries (`cover`, `vacuity`)'),
 (r'/ensures:', 'postconditions (`ensures:*`)'),
]
by = collections.OrderedDict((c[1], []) for c in cats)
by['(other)'] = []
missed = []
for r in rows:
    name = r['change'].replace('seeded/', '').replace('canary/', 'canary ')
    if r['caught'] != 'yes':
        missed.append(name); continue
    first = r['obligations'].split(';')[0]
    for pat, label in cats:
        if re.search(pat, first):
            by[label].append((name, first, r['replayed'])); break
    else:
        by['(other)'].append((name, first, r['replayed']))
out = []
n_seed = sum(1 for r in rows if r['change'].startswith('seeded/')); n_can = len(rows) - n_seed
n_rep = sum(1 for r in rows if r['replayed'] == 'yes')
out.append(f"Last matrix run: {n_seed} seeded changes and {n_can} canaries; {len(rows)-len(missed)} caught, {len(missed)} missed"
           + (f" ({', '.join(missed)})" if missed else "") + f"; for {n_rep} of them a failing input was replayed on the real code, the rest end in `no-failing-input-found`.")
out.append("")
out.append("| first failing obligation is a … | changes (seed ids; `canary` = selftest/mutants) |")
out.append("|---|---|")
for label, items in by.items():
    if items:
        out.append(f"| {label} | " + ", ".join(n for n, _, _ in items) + " |")
text = "\n".join(out) + "\n"
if '--update' in sys.argv:
    p = '/verif/DESIGN.md'; s = open(p).read()
    b, e = '<!-- MATRIX-SUMMARY-BEGIN -->', '<!-- MATRIX-SUMMARY-END -->'
    i, j = s.index(b), s.index(e)
    s = s[:i+len(b)] + "\n" + text + s[j:]
    open(p, 'w').write(s)
else:
    print(text)
