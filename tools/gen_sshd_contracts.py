#!/usr/bin/env python3
"""One-off generator for /repo/processors/sshd/zz_contracts_verif.go (the committed file is the artefact;
this script only saves typing the 20 near-identical handler contracts)."""
import sys

N = "old(len(out))"
HDR = '''//go:build verif

package sshd

// Contracts for the verification tooling (build tag "verif"). Comment-only: never compiled into the daemon.
// Syntax: see /verif/DESIGN.md section 3.3. `out` is the ghost trace of events handed to the EventWriter,
// sent(ch,i) / sentlen(ch) the ghost trace of channel sends, ctr(l1,l2) / ctrsum the login counters,
// group(re, s, "Name") the capture group of re's match on s, matches(re, s) whether re matches s.

//@ nonnil logger
//@
//@ pred CfgOK(c) := c != nil && c.metrics != nil && c.metrics.remoteLogins != nil && c.eventW != nil && c.ctx != nil
//@ pred Std(c, i, outcome) := out[i].Type == "UserLogin" && out[i].Component == "sshd" && out[i].Outcome == outcome
//@   | && out[i].LoggedAt == c.when && out[i].Source.Type == "IP"
//@   | && has(out[i].Target, "host") && out[i].Target["host"] == c.nodeName
//@   | && has(out[i].Target, "machine-id") && out[i].Target["machine-id"] == c.machineID
//@   | && has(out[i].Subjects, "pid") && out[i].Subjects["pid"] == c.pid
//@ pred Subj(i, k, v) := has(out[i].Subjects, k) && out[i].Subjects[k] == v
//@ pred SrcExtra(i, k, v) := has(out[i].Source.Extra, k) && unbox_string(out[i].Source.Extra[k]) == v
//@   | && dyn(out[i].Source.Extra[k]) == typeid("string")
//@ pred MetaExtra(i, k, v) := has(out[i].Metadata.Extra, k) && unbox_string(out[i].Metadata.Extra[k]) == v
//@   | && dyn(out[i].Metadata.Extra[k]) == typeid("string")
//@ pred NoSrcExtra(i) := forall k string :: !has(out[i].Source.Extra, k)
//@ pred Placeholder(v) := v == "unknown" || v == "root" || v == "unknown reason"
//@ pred FromLine(c, v) := contains(c.logEntry, v) || Placeholder(v)
//@ pred SubjectsFromLine(c, i) := forall k string :: has(out[i].Subjects, k) && k != "pid" ==> FromLine(c, out[i].Subjects[k])
//@ pred OneCount(l1, l2) := ctrsum == old(ctrsum) + 1 && ctr(l1, l2) == old(ctr(l1, l2)) + 1
//@   | && (forall a string, b string :: !(a == l1 && b == l2) ==> ctr(a, b) == old(ctr(a, b)))
//@ pred Keyword(line) := prefixof("Accepted publickey", line) || prefixof("Accepted password", line)
//@   | || prefixof("Certificate invalid", line) || prefixof("Invalid user", line) || prefixof("User ", line)
//@   | || prefixof("ROOT LOGIN REFUSED FROM ", line) || prefixof("Authentication refused for ", line)
//@   | || prefixof("Nasty PTR record ", line) || prefixof("reverse mapping checking getaddrinfo for ", line)
//@   | || prefixof("Address ", line) || prefixof("maximum authentication attempts exceeded for ", line)
//@   | || prefixof("Authentication key ", line) || prefixof("Error checking authentication key ", line)
//@   | || prefixof("Failed password for ", line)
'''

def handler(fn, re, fields, kw=None, ctr=None, extra_sub=()):
    """fields: list of spec conjuncts about out[N]."""
    out = []
    out.append(f"//@ func {fn}")
    out.append("//@   requires CfgOK(config)")
    out.append("//@   modifies out" + (", ctr" if ctr else ""))
    out.append("//@   allocates")
    out.append(f"//@   ensures[err] result != nil ==> len(out) == {N} && wfailed")
    out.append("//@   ensures[werr] wfailed && !old(wfailed) ==> result != nil")
    out.append(f"//@   ensures[one] len(out) == {N} || len(out) == {N} + 1")
    out.append(f"//@   ensures[match] result == nil && matches({re}, config.logEntry) ==> len(out) == {N} + 1")
    out.append(f"//@   ensures[only] len(out) == {N} + 1 ==> matches({re}, config.logEntry) && result == nil")
    out.append(f"//@   ensures[fields] len(out) == {N} + 1 ==> Std(config, {N}, \"failed\")")
    for f in fields:
        out.append(f"//@   |   && {f}")
    out.append(f"//@   ensures[sub] len(out) == {N} + 1 ==> SubjectsFromLine(config, {N}) && FromLine(config, out[{N}].Source.Value)")
    if kw:
        out.append(f"//@   ensures[kw] len(out) == {N} + 1 ==> prefixof(\"{kw}\", config.logEntry)")
    out.append("//@   ensures[nosend] sentlen(config.logins) == old(sentlen(config.logins))")
    if ctr:
        out.append(f"//@   ensures[ctr] len(out) == {N} + 1 ==> OneCount(\"{ctr[0]}\", \"{ctr[1]}\")")
        out.append(f"//@   ensures[ctr0] !matches({re}, config.logEntry) ==> ctrsum == old(ctrsum)")
    else:
        out.append("//@   ensures[ctr] ctrsum == old(ctrsum)")
    out.append("")
    return "\n".join(out)

def g(re, name):
    return f'group({re}, config.logEntry, "{name}")'

blocks = [HDR]
# user_type.go
for fn, re in [("processNotInAllowUsersEntry", "notInAllowUsersRE"), ("userInDenyUsers", "userInDenyUsersRE"),
               ("userNotInAnyGroup", "userNotInAnyGroupRE"), ("userGroupInDenyGroups", "userGroupInDenyGroupsRE"),
               ("userGroupNotListedInAllowGroups", "userGroupNotListedInAllowGroupsRE")]:
    blocks.append(handler(fn, re, [f'Subj({N}, "loggedAs", {g(re,"Username")})', f'Subj({N}, "userID", "unknown")',
                                   f'out[{N}].Source.Value == {g(re,"Source")}', f'NoSrcExtra({N})'], kw="User "))
for fn, re in [("userNonExistentShell", "userNonExistentShellRE"), ("userNonExecutableShell", "userNonExecutableShellRE")]:
    blocks.append(handler(fn, re, [f'Subj({N}, "loggedAs", {g(re,"Username")})', f'Subj({N}, "userID", "unknown")',
                                   f'out[{N}].Source.Value == "unknown"', f'MetaExtra({N}, "shell", {g(re,"Shell")})'], kw="User "))
# misc_type.go
blocks.append(handler("rootLoginRefused", "rootLoginRefusedRE", [f'Subj({N}, "loggedAs", "root")', f'Subj({N}, "userID", "unknown")',
              f'out[{N}].Source.Value == {g("rootLoginRefusedRE","Source")}', f'SrcExtra({N}, "port", {g("rootLoginRefusedRE","Port")})'], kw="ROOT LOGIN REFUSED FROM "))
blocks.append(handler("badOwnerOrModesForHostFile", "badOwnerOrModesForHostFileRE", [f'Subj({N}, "loggedAs", {g("badOwnerOrModesForHostFileRE","Username")})',
              f'Subj({N}, "userID", "unknown")', f'out[{N}].Source.Value == "unknown"', f'Subj({N}, "filePath", {g("badOwnerOrModesForHostFileRE","FilePath")})'], kw="Authentication refused for "))
for fn, re, kw in [("maxAuthAttemptsExceeded", "maxAuthAttemptsExceededRE", "maximum authentication attempts exceeded for "),
                   ("failedPasswordAuth", "failedPasswordAuthRE", "Failed password for ")]:
    blocks.append(handler(fn, re, [f'Subj({N}, "loggedAs", {g(re,"Username")})', f'Subj({N}, "userID", "unknown")',
              f'out[{N}].Source.Value == {g(re,"Source")}', f'SrcExtra({N}, "port", {g(re,"Port")})'], kw=kw))
# dns_type.go
for fn, re, kw in [("nastyPTRRecord", "nastyPTRRecordRE", "Nasty PTR record "), ("reverseMappingCheckFailed", "reverseMappingCheckFailedRE", "reverse mapping checking getaddrinfo for "),
                   ("doesNotMapBackToAddr", "doesNotMapBackToAddrRE", "Address ")]:
    blocks.append(handler(fn, re, [f'Subj({N}, "loggedAs", "unknown")', f'Subj({N}, "userID", "unknown")',
              f'out[{N}].Source.Value == {g(re,"Source")}', f'SrcExtra({N}, "dns", {g(re,"DNSName")})'], kw=kw))
# revoked_type.go
for fn, re, kw in [("revokedPublicKeyByFile", "revokedPublicKeyByFileRE", "Authentication key "), ("revokedPublicKeyByFileErr", "revokedPublicKeyByFileErrRE", "Error checking authentication key ")]:
    blocks.append(handler(fn, re, [f'Subj({N}, "loggedAs", "unknown")', f'Subj({N}, "userID", "unknown")', f'out[{N}].Source.Value == "unknown"',
              f'Subj({N}, "keyType", {g(re,"SSHKeyType")})', f'Subj({N}, "fingerprint", {g(re,"SSHKeyFingerprint")})', f'Subj({N}, "filePath", {g(re,"FilePath")})'], kw=kw))
# invalid user (counts inside the handler)
blocks.append(handler("processInvalidUserEntry", "invalidUserRE", [f'Subj({N}, "loggedAs", {g("invalidUserRE","Username")})', f'Subj({N}, "userID", "unknown")',
              f'out[{N}].Source.Value == {g("invalidUserRE","Source")}', f'SrcExtra({N}, "port", {g("invalidUserRE","Port")})'], ctr=("unknown", "failure")))

S0 = "old(sentlen(config.logins))"
SENT = f"sent(config.logins, {S0})"
ACC_COMMON = f"""//@   blocks cancellable
//@   requires CfgOK(config)
//@   modifies out, CTRMOD chans
//@   allocates
//@   ensures[err] result != nil ==> len(out) == {N} && wfailed && sentlen(config.logins) == {S0}
//@   ensures[werr] wfailed && !old(wfailed) ==> result != nil
//@   ensures[one] len(out) == {N} || len(out) == {N} + 1
//@   ensures[sendone] sentlen(config.logins) == {S0} || sentlen(config.logins) == {S0} + 1
//@   ensures[cancel] len(out) == {N} + 1 && sentlen(config.logins) == {S0} ==> cancelled(config.ctx)
//@   ensures[sub] len(out) == {N} + 1 ==> SubjectsFromLine(config, {N}) && FromLine(config, out[{N}].Source.Value)"""

blocks.append(f"""//@ pred DataHas(i, k, v) := out[i].Data != nil && has(jsonmap(out[i].Data), k) && jsonmap(out[i].Data)[k] == v
//@ pred SentLogin(c, s0, n, cred) := sent(c.logins, s0).Source == out[n].ref && sent(c.logins, s0).PID == atoival(c.pid)
//@   | && sent(c.logins, s0).CredUserID == cred && sent(c.logins, s0).stamp == n + 1 && out[n].Outcome == "succeeded"

//@ func processAcceptedPasswordEntry
{ACC_COMMON.replace("CTRMOD ", "")}
//@   ensures[match] result == nil && matches(passwordLoginRE, config.logEntry) && atoiok(config.pid) ==> len(out) == {N} + 1
//@   ensures[only] len(out) == {N} + 1 ==> matches(passwordLoginRE, config.logEntry) && atoiok(config.pid) && result == nil
//@   ensures[fields] len(out) == {N} + 1 ==> Std(config, {N}, "succeeded")
//@   |   && Subj({N}, "loggedAs", {g("passwordLoginRE","Username")}) && Subj({N}, "userID", "unknown")
//@   |   && out[{N}].Source.Value == {g("passwordLoginRE","Source")} && SrcExtra({N}, "port", {g("passwordLoginRE","Port")})
//@   ensures[send] sentlen(config.logins) == {S0} + 1 ==> len(out) == {N} + 1 && SentLogin(config, {S0}, {N}, "unknown")
//@   ensures[ctr] ctrsum == old(ctrsum)

//@ pred PKRest(line) := substr(line, len(group(loginRE, line, "0")) + 1, len(line) - len(group(loginRE, line, "0")) - 1)
//@ pred PKPlain(line) := len(line) == len(group(loginRE, line, "0"))
//@ pred PKCert(line) := !PKPlain(line) && matches(certIDRE, PKRest(line))
//@ pred PKCred(line) := ite(PKCert(line), group(certIDRE, PKRest(line), "UserID"), "unknown")

//@ func processAcceptPublicKeyEntry
{ACC_COMMON.replace("CTRMOD", "ctr,")}
//@   ensures[match] result == nil && matches(loginRE, config.logEntry) && atoiok(config.pid) ==> len(out) == {N} + 1
//@   ensures[only] len(out) == {N} + 1 ==> matches(loginRE, config.logEntry) && atoiok(config.pid) && result == nil
//@   ensures[fields] len(out) == {N} + 1 ==> Std(config, {N}, "succeeded")
//@   |   && Subj({N}, "loggedAs", {g("loginRE","Username")}) && Subj({N}, "userID", PKCred(config.logEntry))
//@   |   && out[{N}].Source.Value == {g("loginRE","Source")} && SrcExtra({N}, "port", {g("loginRE","Port")})
//@   |   && DataHas({N}, "Alg", {g("loginRE","Alg")}) && DataHas({N}, "SSHKeySum", {g("loginRE","SSHKeySum")})
//@   ensures[certdata] len(out) == {N} + 1 && PKCert(config.logEntry) ==>
//@   |   DataHas({N}, "Serial", group(certIDRE, PKRest(config.logEntry), "Serial")) && DataHas({N}, "CA", group(certIDRE, PKRest(config.logEntry), "CA"))
//@   ensures[send] sentlen(config.logins) == {S0} + 1 ==> len(out) == {N} + 1 && SentLogin(config, {S0}, {N}, PKCred(config.logEntry))
//@   ensures[ctr] len(out) == {N} + 1 ==> OneCount(ite(PKPlain(config.logEntry), "ssh-key", "ssh-cert"), "success")
//@   ensures[ctr0] !matches(loginRE, config.logEntry) || !atoiok(config.pid) ==> ctrsum == old(ctrsum)
//@   ensures[ctr1] ctrsum == old(ctrsum) || ctrsum == old(ctrsum) + 1

//@ pred CertReason(line) := ite(len(line) <= 21, "unknown reason", substr(line, 21, len(line) - 21))

//@ func processCertificateInvalidEntry
//@   requires CfgOK(config)
//@   modifies out, ctr
//@   allocates
//@   ensures[err] result != nil ==> len(out) == {N} && wfailed
//@   ensures[werr] wfailed && !old(wfailed) ==> result != nil
//@   ensures[one] len(out) == {N} || len(out) == {N} + 1
//@   ensures[match] result == nil ==> len(out) == {N} + 1
//@   ensures[only] len(out) == {N} + 1 ==> result == nil
//@   ensures[fields] len(out) == {N} + 1 ==> Std(config, {N}, "failed")
//@   |   && Subj({N}, "loggedAs", "unknown") && Subj({N}, "userID", "unknown")
//@   |   && out[{N}].Source.Value == "unknown" && SrcExtra({N}, "port", "unknown")
//@   |   && DataHas({N}, "error", "certificate invalid") && DataHas({N}, "reason", CertReason(config.logEntry))
//@   ensures[sub] len(out) == {N} + 1 ==> SubjectsFromLine(config, {N}) && FromLine(config, out[{N}].Source.Value)
//@   |   && FromLine(config, CertReason(config.logEntry))
//@   ensures[nosend] sentlen(config.logins) == old(sentlen(config.logins))
//@   ensures[ctr] OneCount("ssh-cert", "failure")

//@ func ProcessEntry
//@   blocks cancellable
//@   requires CfgOK(config)
//@   modifies out, ctr, chans
//@   allocates
//@   ensures[err] result != nil ==> wfailed && len(out) == {N} && sentlen(config.logins) == {S0}
//@   ensures[werr] wfailed && !old(wfailed) ==> result != nil
//@   ensures[one] len(out) == {N} || len(out) == {N} + 1
//@   ensures[sendone] sentlen(config.logins) == {S0} || sentlen(config.logins) == {S0} + 1
//@   ensures[send] sentlen(config.logins) == {S0} + 1 ==> len(out) == {N} + 1 && out[{N}].Outcome == "succeeded"
//@   |   && sent(config.logins, {S0}).Source == out[{N}].ref && sent(config.logins, {S0}).stamp == {N} + 1
//@   |   && sent(config.logins, {S0}).PID == atoival(config.pid)
//@   ensures[cancel] len(out) == {N} + 1 && out[{N}].Outcome == "succeeded" && sentlen(config.logins) == {S0} ==> cancelled(config.ctx)
//@   ensures[failnosend] len(out) == {N} + 1 && out[{N}].Outcome != "succeeded" ==> sentlen(config.logins) == {S0}
//@   ensures[outcome] len(out) == {N} + 1 ==> (out[{N}].Outcome == "succeeded" <==> prefixof("Accepted p", config.logEntry))
//@   |   && (out[{N}].Outcome == "succeeded" || out[{N}].Outcome == "failed")
//@   ensures[keyword] len(out) == {N} + 1 ==> Keyword(config.logEntry)
//@   ensures[event] len(out) == {N} + 1 ==> out[{N}].Type == "UserLogin" && out[{N}].Component == "sshd" && out[{N}].LoggedAt == config.when
//@   |   && Subj({N}, "pid", config.pid) && has(out[{N}].Target, "host") && out[{N}].Target["host"] == config.nodeName
//@   |   && has(out[{N}].Target, "machine-id") && out[{N}].Target["machine-id"] == config.machineID
//@   ensures[sub] len(out) == {N} + 1 ==> SubjectsFromLine(config, {N}) && FromLine(config, out[{N}].Source.Value)
//@   ensures[ctr] len(out) == {N} + 1 ==> ctrsum == old(ctrsum) + 1
//@   ensures[ctrlabel] len(out) == {N} + 1 ==>
//@   |   ite(out[{N}].Outcome == "succeeded",
//@   |       ite(prefixof("Accepted password", config.logEntry), ctr("password", "success") == old(ctr("password", "success")) + 1,
//@   |           ctr("ssh-key", "success") == old(ctr("ssh-key", "success")) + 1 || ctr("ssh-cert", "success") == old(ctr("ssh-cert", "success")) + 1),
//@   |       ctr("unknown", "failure") == old(ctr("unknown", "failure")) + 1 || ctr("ssh-cert", "failure") == old(ctr("ssh-cert", "failure")) + 1)
//@   ensures[nokw] !Keyword(config.logEntry) ==> ctrsum == old(ctrsum) && len(out) == {N}

//@ pred SshdOK(p) := p != nil && cast(p, "*processors/sshd.SshdProcessorer").metrics != nil && cast(p, "*processors/sshd.SshdProcessorer").eventW != nil
//@   | && cast(p, "*processors/sshd.SshdProcessorer").metrics.remoteLogins != nil
// Causal order (C10): a login handed to the correlator carries an event that has already been written.
//@ pred Written(src) := writtenat(src) > 0 && writtenat(src) <= len(out) && out[writtenat(src) - 1].ref == src
//@ chaninv common.RemoteUserLogin : v.Source != nil && Written(v.Source)
//@ ghost g_sshd_calls : Int
//@ ghost g_sshd_pid : String
//@ ghost g_sshd_msg : String
//@ ghost g_sshd_ctx : Int

//@ func (*SshdProcessorer).ProcessSshdLogEntry
//@   blocks cancellable
//@   requires s != nil && s.metrics != nil && s.metrics.remoteLogins != nil && s.eventW != nil && ctx != nil
//@   ghost g_sshd_calls := g_sshd_calls + 1
//@   ghost g_sshd_pid := sm.PID
//@   ghost g_sshd_msg := sm.Message
//@   ghost g_sshd_ctx := ctx
//@   modifies out, ctr, chans, g_sshd_calls, g_sshd_pid, g_sshd_msg, g_sshd_ctx
//@   ensures[traced] g_sshd_calls == old(g_sshd_calls) + 1 && g_sshd_pid == sm.PID && g_sshd_msg == sm.Message && g_sshd_ctx == ctx
//@   allocates
//@   ensures[err] result != nil ==> wfailed && len(out) == {N} && sentlen(s.logins) == old(sentlen(s.logins))
//@   ensures[werr] wfailed && !old(wfailed) ==> result != nil
//@   ensures[one] len(out) == {N} || len(out) == {N} + 1
//@   ensures[sendone] sentlen(s.logins) == old(sentlen(s.logins)) || sentlen(s.logins) == old(sentlen(s.logins)) + 1
//@   ensures[send] sentlen(s.logins) == old(sentlen(s.logins)) + 1 ==> len(out) == {N} + 1 && out[{N}].Outcome == "succeeded"
//@   |   && sent(s.logins, old(sentlen(s.logins))).Source == out[{N}].ref && sent(s.logins, old(sentlen(s.logins))).stamp == {N} + 1
//@   |   && sent(s.logins, old(sentlen(s.logins))).PID == atoival(sm.PID)
//@   ensures[cancel] len(out) == {N} + 1 && out[{N}].Outcome == "succeeded" && sentlen(s.logins) == old(sentlen(s.logins)) ==> cancelled(ctx)
//@   ensures[keyword] len(out) == {N} + 1 ==> Keyword(sm.Message)
//@   ensures[event] len(out) == {N} + 1 ==> out[{N}].Type == "UserLogin" && out[{N}].Component == "sshd"
//@   |   && old(clock) <= out[{N}].LoggedAt && out[{N}].LoggedAt <= clock
//@   |   && Subj({N}, "pid", sm.PID) && has(out[{N}].Target, "host") && out[{N}].Target["host"] == s.nodeName
//@   |   && has(out[{N}].Target, "machine-id") && out[{N}].Target["machine-id"] == s.machineID
//@   ensures[ctr] len(out) == {N} + 1 ==> ctrsum == old(ctrsum) + 1
//@   ensures[nokw] !Keyword(sm.Message) ==> ctrsum == old(ctrsum) && len(out) == {N}
""")
sys.stdout.write("\n".join(blocks))
