#!/bin/bash
# Runs every seeded change and every selftest canary against the check of the property it breaks and writes
# /verif/seeded/MATRIX.md + matrix.json.  Each change is applied to a scratch copy of /repo's committed tree (git
# archive HEAD, under /tmp, removed at once) and the check runs there with --repo; J jobs in parallel (default 4).
#   seed_matrix.sh --only <regex>          reruns only the changes whose name (seeded/Cnn-i or canary/<name>) matches and merges
#   the rows into the existing matrix.json.
#   seed_matrix.sh --in-repo <seed-id>...   applies the named seeded changes to /repo itself instead (git apply, run the
#   check, git checkout -- .), the way a registered command sees them; requires a clean /repo.
cd /verif
J=${J:-4}
one() {
  name=$1; patch=$2; prop=$3
  tmp=$(mktemp -d /tmp/matcopy.XXXX)
  (git -C /repo archive HEAD | tar -x -C $tmp) && patch -p1 -s --no-backup-if-mismatch -d $tmp -i $patch >/dev/null 2>&1 || { rm -rf $tmp; echo "{\"change\":\"$name\",\"property\":\"$prop\",\"exit\":2,\"violations\":0,\"caught\":\"noapply\",\"replayed\":\"no\",\"obligations\":\"\"}"; return; }
  o=$(./bin/govc check --no-evidence --repo $tmp $prop 2>&1); rc=$?
  rm -rf $tmp
  nv=$(echo "$o" | grep -c '^VIOLATION')
  obs=$(echo "$o" | grep '^VIOLATION' | sed 's/.*obligation=//; s/ no-failing-input-found//' | head -3 | tr '\n' ';' | sed 's/\\/\\\\/g; s/"/\\"/g')
  if echo "$o" | grep '^VIOLATION' | grep -qv 'no-failing-input-found'; then replay=yes; else replay=no; fi
  caught=no; [ $rc -eq 1 ] && [ $nv -gt 0 ] && caught=yes
  echo "{\"change\":\"$name\",\"property\":\"$prop\",\"exit\":$rc,\"violations\":$nv,\"caught\":\"$caught\",\"replayed\":\"$replay\",\"obligations\":\"$obs\"}"
}
export -f one
if [ "$1" = "--in-repo" ]; then
  shift
  if [ -n "$(git -C /repo status --porcelain)" ]; then echo "/repo has uncommitted changes: commit them first"; exit 2; fi
  for id in "$@"; do
    prop=${id%-*}; git -C /repo apply /verif/seeded/$id/patch.diff || continue
    o=$(./bin/govc check --no-evidence $prop 2>&1); rc=$?
    git -C /repo checkout -- .
    echo "in-repo $id rc=$rc $(echo "$o" | grep -c '^VIOLATION') violations"
  done
  exit 0
fi
ONLY='.'; MERGE=0
if [ "$1" = "--only" ]; then ONLY=$2; MERGE=1; fi
export MERGE
{
for d in seeded/C*/; do id=$(basename $d); echo "seeded/$id /verif/seeded/$id/patch.diff ${id%-*}"; done
for p in selftest/mutants/*.patch; do n=$(basename $p .patch); echo "canary/$n /verif/$p ${n%%-*}"; done
} | grep -E "$ONLY" | xargs -P $J -L 1 bash -c 'one "$0" "$1" "$2"' > /tmp/matrix.lines 2>/dev/null
python3 - <<'PY'
import json,os
rows=[json.loads(l) for l in open('/tmp/matrix.lines') if l.strip().startswith('{')]
if os.environ.get('MERGE')=='1':
    new={r['change'] for r in rows}
    rows+=[r for r in json.load(open('/verif/seeded/matrix.json')) if r['change'] not in new]
rows.sort(key=lambda r:(r['change'].split('/')[0]!='seeded', r['change']))
json.dump(rows, open('/verif/seeded/matrix.json','w'), indent=0)
with open('/verif/seeded/MATRIX.md','w') as f:
    f.write("| change | property | caught | failing obligations (first 3) | replayed input |\n|---|---|---|---|---|\n")
    for r in rows:
        f.write(f"| {r['change']} | {r['property']} | {r['caught']} | `{r['obligations'][:230]}` | {r['replayed']} |\n")
print(len(rows), "rows;", sum(1 for r in rows if r['caught']!='yes'), "not caught")
PY
