#!/bin/bash
# Runs every seeded change (and every selftest canary) against the check of the property it breaks and writes
# /verif/seeded/MATRIX.md + matrix.json.  Requires a clean /repo; applies each patch, runs, reverts.
cd /verif
if [ -n "$(git -C /repo status --porcelain)" ]; then echo "/repo has uncommitted changes: commit them first"; exit 2; fi
[ -x bin/govc ] || ./check --build-only >/dev/null 2>&1
out=seeded/matrix.json; md=seeded/MATRIX.md
echo "[" > $out; first=1
echo "| change | property | caught | failing obligations (first 3) | replayed input |" > $md
echo "|---|---|---|---|---|" >> $md
run_one() { # name patch prop
  local name=$1 patch=$2 prop=$3
  git -C /repo apply "$patch" || { echo "cannot apply $patch"; return; }
  local o rc
  o=$(./bin/govc check --no-evidence $prop 2>&1); rc=$?
  git -C /repo checkout -- .
  local nv obs replay
  nv=$(echo "$o" | grep -c '^VIOLATION')
  obs=$(echo "$o" | grep '^VIOLATION' | sed 's/.*obligation=//; s/ no-failing-input-found//' | head -3 | tr '\n' ';')
  if echo "$o" | grep '^VIOLATION' | grep -qv 'no-failing-input-found'; then replay=yes; else replay=no; fi
  local caught=no; [ $rc -eq 1 ] && [ $nv -gt 0 ] && caught=yes
  [ $first -eq 1 ] || echo "," >> $out; first=0
  printf '{"change":"%s","property":"%s","exit":%d,"violations":%d,"caught":"%s","replayed":"%s","obligations":"%s"}' "$name" "$prop" $rc $nv $caught $replay "$(echo "$obs" | sed 's/"/\\"/g')" >> $out
  echo "| $name | $prop | $caught | \`$(echo "$obs" | cut -c1-230)\` | $replay |" >> $md
  echo "$name $prop caught=$caught nv=$nv"
}
for d in seeded/C*/; do
  id=$(basename $d); prop=${id%-*}
  [ -n "$1" ] && [[ "$id" != $1* ]] && continue
  run_one "seeded/$id" /verif/seeded/$id/patch.diff $prop
done
for p in selftest/mutants/*.patch; do
  n=$(basename $p .patch); prop=${n%%-*}
  [ -n "$1" ] && [[ "$n" != $1* ]] && continue
  run_one "canary/$n" /verif/$p $prop
done
echo "]" >> $out
