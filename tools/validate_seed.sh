#!/bin/bash
# usage: validate_seed.sh <prop> <n> <pkgdir> <run-regex> "<what it needs>"
# Confirms in a scratch worktree: with the patch the existing suite passes and the demo fails; without it the demo passes.
set -u
export GOFLAGS=-mod=mod GOPROXY=off GOSUMDB=off GOTOOLCHAIN=local
P=$1; N=$2; PKG=$3; RUN=$4; NEEDS=${5:-}
PATCH=/tmp/mut-$P-$N.diff; DEMO=/tmp/demo-$P-${N}_test.go
WT=$(mktemp -d /tmp/seedwt.XXXX); rmdir $WT
git -C /repo worktree add --detach $WT HEAD >/dev/null 2>&1 || exit 2
cleanup(){ git -C /repo worktree remove --force $WT >/dev/null 2>&1; }
trap cleanup EXIT
cd $WT
cp $DEMO $PKG/zz_demo_${P}_${N}_test.go
clean_demo=$(go test -vet=off -count=1 -timeout 300s -run "$RUN" ./$PKG/ 2>&1 | tail -3); clean_rc=$?
go test -vet=off -count=1 -timeout 300s -run "$RUN" ./$PKG/ >/dev/null 2>&1; clean_rc=$?
rm $PKG/zz_demo_${P}_${N}_test.go
git apply $PATCH || { echo "patch does not apply"; exit 2; }
go build ./... || { echo "does not build"; exit 2; }
go test -vet=off -count=1 -timeout 600s ./... >/tmp/seed_suite.log 2>&1; suite_rc=$?
cp $DEMO $PKG/zz_demo_${P}_${N}_test.go
go test -vet=off -count=1 -timeout 300s -run "$RUN" ./$PKG/ >/tmp/seed_demo.log 2>&1; mut_rc=$?
echo "$P-$N: clean demo rc=$clean_rc (want 0); mutated suite rc=$suite_rc (want 0); mutated demo rc=$mut_rc (want !=0)"
if [ $clean_rc -eq 0 ] && [ $suite_rc -eq 0 ] && [ $mut_rc -ne 0 ]; then
  D=/verif/seeded/$P-$N; mkdir -p $D
  cp $PATCH $D/patch.diff; cp $DEMO $D/demo_test.go
  python3 - "$P" "$N" "$PKG" "$RUN" "$NEEDS" <<'PY'
import json,sys
p,n,pkg,run,needs=sys.argv[1:6]
json.dump({"property":p,"breaks":p,"demo_package_dir":pkg,"demo_run":f"go test -vet=off -count=1 -run '{run}' ./{pkg}/","needs_to_manifest":needs,
 "confirmed":{"clean_tree_demo":"pass","mutated_tree_existing_suite":"pass","mutated_tree_demo":"fail"},
 "what_i_ran":"tools/validate_seed.sh in a scratch git worktree of /repo HEAD (removed afterwards)","source":"independent sub-agent given only the property text"},
 open(f"/verif/seeded/{p}-{n}/meta.json","w"),indent=1)
PY
  echo "kept $D"
else
  echo "REJECTED"; tail -5 /tmp/seed_demo.log
fi
