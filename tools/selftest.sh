#!/bin/bash
# Must-fail corpus: every patch selftest/mutants/<Cnn>-*.patch applied to /repo must make ./check <Cnn> fail (exit 1).
# usage: selftest.sh [pattern]
cd /verif
if [ -n "$(git -C /repo status --porcelain)" ]; then echo "/repo has uncommitted changes: commit them first"; exit 2; fi
pat=${1:-}
fail=0
for p in selftest/mutants/*${pat}*.patch; do
  prop=$(basename $p | cut -d- -f1)
  git -C /repo apply /verif/$p || { echo "SKIP $p (does not apply)"; continue; }
  out=$(./bin/govc check --no-evidence $prop 2>&1); rc=$?
  git -C /repo checkout -- .
  nv=$(echo "$out" | grep -c '^VIOLATION')
  first=$(echo "$out" | grep '^VIOLATION' | head -2 | sed 's/.*obligation=//' | tr '\n' ';' | cut -c1-160)
  if [ $rc -eq 1 ] && [ $nv -gt 0 ]; then echo "caught  $(basename $p): $nv violation(s): $first"; else echo "MISSED  $(basename $p) rc=$rc"; fail=1; fi
done
exit $fail
