#!/bin/bash
# usage: mkmutant.sh <name> <file> <python-expr-on-s>   creates selftest/mutants/<name>.patch from a one-off edit of /repo (undone)
set -e
name=$1; file=$2; expr=$3
cd /repo
python3 - "$file" "$expr" <<'PY'
import sys
f,expr=sys.argv[1],sys.argv[2]
s=open(f).read()
t=eval(expr,{'s':s})
assert t!=s, "mutation did not change the file"
open(f,'w').write(t)
PY
export GOFLAGS=-mod=mod GOPROXY=off GOSUMDB=off GOTOOLCHAIN=local
go build ./... && go test -vet=off -count=1 ./... >/tmp/mut_test.log 2>&1 && echo "suite passes with mutant $name" || { echo "SUITE FAILS with mutant $name"; grep -v "^ok\|no test files" /tmp/mut_test.log | head -5; }
git diff > /verif/selftest/mutants/$name.patch
git checkout -- .
