#!/bin/bash
# usage: run_benign.sh <patchfile> <prop>...   applies a behaviour-preserving change to a scratch copy of /repo and runs the
# checks there: they must all pass (exit 0).  Never touches /repo.
P=$1; shift
tmp=$(mktemp -d /tmp/bencopy.XXXX); trap 'rm -rf $tmp' EXIT
(git -C /repo archive HEAD | tar -x -C $tmp) && patch -p1 -s --no-backup-if-mismatch -d $tmp -i $P || { echo "$(basename $P): patch does not apply"; exit 2; }
for p in "$@"; do
  out=$(cd /verif && ${GOVC_BIN:-./bin/govc} check --no-evidence --repo $tmp $p 2>&1); rc=$?
  echo "benign=$(basename $P .diff) prop=$p rc=$rc :: $(echo "$out" | grep '^VIOLATION' | sed 's/.*obligation=//' | head -3 | tr '\n' ' ' | cut -c1-260)"
done
