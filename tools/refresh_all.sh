#!/bin/bash
# Runs every claimed check on the current /repo (must be clean) and validates MANIFEST + evidence.
cd /verif
if [ -n "$(git -C /repo status --porcelain)" ]; then echo "/repo is not clean"; git -C /repo status --short; exit 2; fi
rm -rf replays
ids=$(python3 -c "import json;print(' '.join(c['property_id'] for c in json.load(open('MANIFEST.json'))['checks']))")
rc=0
for p in $ids; do
  out=$(./check $p 2>&1); r=$?
  echo "$(echo "$out" | tail -1)  [exit $r]"
  echo "$out" | grep -E '^(VIOLATION|KNOWN-FINDING)' | cut -c1-200
  [ $r -ne 0 ] && rc=1
done
python3-vt - <<'PY'
import json,jsonschema,glob
m=json.load(open('/verif/MANIFEST.json'))
jsonschema.validate(m, json.load(open('/root/.vp/MANIFEST.schema.json')))
sch=json.load(open('/root/.vp/EVIDENCE.schema.json'))
for c in m['checks']:
    d=json.load(open(c['evidence_file'])); jsonschema.validate(d, sch)
    cov=d['coverage']
    assert d['violations']==0 and cov['obligations']==cov['discharged'], (c['property_id'], cov['obligations'], cov['discharged'])
    assert not cov.get('clause_filters_without_match'), (c['property_id'], 'stale clause filter (selects no obligation)', cov['clause_filters_without_match'])
print('manifest and', len(m['checks']), 'evidence files valid')
PY
exit $rc
