#!/bin/bash
# Full regression on scratch copies of /repo (never touches /repo): every seeded change and canary must be caught by its
# property's check, every benign change must pass.  usage: regress.sh [jobs]   -> /tmp/regress.out
J=${1:-3}
cd /verif
one() {
  kind=$1; name=$2; patch=$3; prop=$4
  tmp=$(mktemp -d /tmp/regcopy.XXXX)
  (git -C /repo archive HEAD | tar -x -C $tmp) && patch -p1 -s --no-backup-if-mismatch -d $tmp -i $patch >/dev/null 2>&1 || { echo "$kind $name $prop NOAPPLY"; rm -rf $tmp; return; }
  out=$(./bin/govc check --no-evidence --repo $tmp $prop 2>&1); rc=$?
  rm -rf $tmp
  first=$(echo "$out" | grep '^VIOLATION' | head -1 | sed 's/.*obligation=//' | cut -c1-120)
  echo "$kind $name $prop rc=$rc $first"
}
export -f one
{
for d in seeded/C*/; do id=$(basename $d); echo "seed $id /verif/seeded/$id/patch.diff ${id%-*}"; done
for p in selftest/mutants/*.patch; do n=$(basename $p .patch); echo "canary $n /verif/$p ${n%%-*}"; done
for p in benign/ben-*.diff; do n=$(basename $p .diff); echo "benign $n /verif/$p $(echo $n | cut -d- -f2)"; done
} | xargs -P $J -L 1 bash -c 'one "$0" "$1" "$2" "$3"' > /tmp/regress.out 2>&1
echo "seeds/canaries not caught:"; grep -E '^(seed|canary) ' /tmp/regress.out | grep -v 'rc=1' 
echo "benign alarms (other than benign/KNOWN_LIMITS.txt):"; grep '^benign ' /tmp/regress.out | grep -v 'rc=0' | grep -v -F -f <(grep -v '^#' /verif/benign/KNOWN_LIMITS.txt | sed 's/$/ /')
echo "done: $(wc -l < /tmp/regress.out) runs"
