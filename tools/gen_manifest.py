#!/usr/bin/env python3
"""Writes /verif/MANIFEST.json from the table below (kept as a script so the 20 entries stay consistent)."""
import json, subprocess
claimed = {
 "C05": ("proof", "DESIGN.md 4 (C05)", "contract-based deductive verification: postconditions over ghost traces out/sent(logins) on the real sshd handlers, VCs from go/ssa discharged by z3/cvc5",
         "Every accepted-login path of the real processAcceptPublicKeyEntry/processAcceptedPasswordEntry/ProcessEntry/ProcessSshdLogEntry is verified, for a symbolic line and PID token and for both outcomes of the event write and both arms of the hand-off select: write-before-send, same pointer, PID = Atoi(pid), CredUserID, nothing forwarded on failure. Unbounded in the inputs.",
         "Assumes the derived regexp contracts, strconv.Atoi/fmt/zap/EventWriter.Write/channel contracts listed in the evidence; blocking of the hand-off (liveness) is not decided."),
 "C11": ("proof", "DESIGN.md 4 (C11)", "contract-based deductive verification: zero-annotation safety sweep + postconditions of processors/sshd for a symbolic (pid, line)",
         "All functions of processors/sshd are symbolically executed from go/ssa for an arbitrary line and PID token: every index, slice, nil dereference, nil-map store and conversion is an obligation; postconditions give at-most-one event, login only with a succeeded event, event only behind a keyword, values are substrings of the line or placeholders, no error unless the write failed.",
         "Assumes derived regexp contracts (FindStringSubmatch decomposition), termination of RE2, strings as SMT strings; ParseSyslogMessage part is covered under C07."),
 "C19": ("proof", "DESIGN.md 4 (C19)", "contract-based deductive verification: postconditions over ghost counters ctr(method,outcome)/ctrsum",
         "ProcessEntry and every handler are verified against counter postconditions: emitted event => exactly one increment in total, label outcome matches the event outcome, method password / ssh-key / ssh-cert for accepted forms; no keyword => no counter changes. IncLogins is verified against the assumed CounterVec contract.",
         "Assumes prometheus CounterVec.WithLabelValues/Counter.Inc contract (label pair -> one increment)."),
 "C06": ("proof", "DESIGN.md 4 (C06), 3.7", "contract-based deductive verification: handler postconditions (event fields == named capture groups) + regular-language lemmas over regexp contracts derived from the pattern literals",
         "Per handler, the code-level postcondition 'on a match exactly one event whose fields equal the named capture groups / constants' is proved from go/ssa; per message format of the oracle (22 forms, specs/sshd_formats.json) marker-language emptiness queries prove that every printed line is routed to its handler by the dispatch table read from the code, matches the pattern and that every group is exactly the printed field (no dominating parse), for all field values in the stated regular domains, any length.",
         "Field domains are explicit preconditions (listed in evidence); the leftmost-first/greedy reading of RE2 and the soundness argument of the lemma generator (DESIGN.md 3.7) are trusted; json.Marshal of map[string]string is assumed faithful."),
 "C07": ("proof", "DESIGN.md 4 (C07)", "contract-based deductive verification: postcondition of the real ParseSyslogMessage for every '<pid><spaces><message>\\n' record, discharged as marker-language position lemmas; ghost call record for Process",
         "ParseSyslogMessage is symbolically executed over the assumed contracts of strings.TrimSuffix/Split/Join/TrimLeft; the universally quantified postcondition (PID == pid, Message == message for every terminated record with any padding) is Skolemised and each string equality is decided as a regular-language emptiness problem over one marked string (z3 5.1), unbounded in all lengths. Process is proved to hand exactly that value once to ProcessSshdLogEntry; AuditLogIngester.Process forwards the line unchanged.",
         "auparse.ParseLogLine ignoring the trailing newline is dependency behaviour (assumed). strings.* contracts are assumed (listed)."),
 "C17": ("proof", "DESIGN.md 4 (C17), 3.7", "regular-language lemmas (marker encoding, z3 5.1/cvc5) over regexp contracts derived from the current pattern literals, user name domain [^\\n]*",
         "For invalid user / failed password / maximum attempts with the user name ranging over all of [^\\n]* (spaces, ' from ', ' port ' included, any length): every printed line reaches its handler and matches, and the Source and Port groups are exactly the printed address and port; composed with the handlers' verified postconditions.",
         "Address domain \\S+, port [0-9]+ (what sshd prints); derived regexp contracts and the lemma generator are trusted."),
 "C01": ("proof", "DESIGN.md 4 (tracker contracts, C01)", "contract-based deductive verification: data-structure invariant TrackerInv proved inductive over the four public operations + write-site assertions + ghost provenance postconditions",
         "TrackerInv (I0-I8) is assumed for an arbitrary symbolic tracker state and re-established by RemoteLogin, AuditdEvent and both cleanup operations on every path (go/ssa symbolic execution, Iterate/WithLockedValueDo expanded with loop invariants, helpers by contract): true after every finite history over any number of sessions and PIDs. Each emitted event is proved to carry the identity of the login bound to its own session, whose PID equals the PID of the LOGIN record that opened it.",
         "Assumes EventWriter.Write, zap, strconv.Atoi, time contracts (listed); go-libaudit behaviour below AuditdEvent is out of reach; lock-free sequential semantics here (schedules are C03)."),
 "C02": ("proof", "DESIGN.md 4 (C02)", "contract-based deductive verification: whole-view postconditions over the ghost output trace with provenance, loop invariant of the flush loop",
         "Per-operation postconditions (held queue extended by exactly the event / exactly one rendering emitted / queue rendered in order and emptied on binding) and the invariant 'bound => queue empty' are proved for all states; they compose by induction to exactly-once, in-order emission. Any queue length, any position of the login, several sessions pending (frame conditions).",
         "The composition over whole histories is the standard induction over operations (each operation is proved from an arbitrary invariant-satisfying state); Write appends one event or fails without effect (assumed)."),
 "C04": ("proof", "DESIGN.md 4 (C04)", "contract-based deductive verification: postconditions 'nothing emitted, nothing modified' per uncorrelated case",
         "Proved for every state satisfying the invariant, hence at every prefix of every history: no/unset session, unknown session with a non-LOGIN record, uncorrelated session, LOGIN without parked login, cleanup: no output; every emitted event carries the processed event's session ID and that session's identity.",
         "The string 'unset' for 4294967295 comes from auparse (dependency)."),
 "C09": ("proof", "DESIGN.md 4 (C09)", "contract-based deductive verification: invariant clause over ghost g_disp (credential-disposal processed) + postconditions of RemoteLogin/AuditdEvent",
         "Invariant: a tracked session whose CRED_DISP was processed is unbound and still holds that record; binding it (late login) or processing CRED_DISP on a bound session removes it from the table — proved for all states. Found and fixed D3 (session not released by the late-login flush).",
         "Ghost g_disp is set by contract-level ghost code at AuditdEvent entry from the event's own fields."),
 "C14": ("proof", "DESIGN.md 4 (C14)", "contract-based deductive verification: functional postcondition + frame of toAuditEvent, asserted again at every write site",
         "toAuditEvent's result is proved field by field against the audit event and the login (type, component, timestamp, auditId, outcome, metadata incl. process_args iff args, subjects copied, source/target shared) and proved to modify nothing reachable from its inputs, for all inputs.",
         "aucoalesce's Result/Summary content is the dependency's."),
 "C16": ("proof", "DESIGN.md 4 (C16)", "contract-based deductive verification: whole-view postconditions of both cleanup operations with deletion during map iteration (visited-set invariants)",
         "For every tracker state and cut-off: surviving sessions are exactly those correlated or not older than the cut-off, surviving parked logins exactly those not older; values, user fields, the other map and the output unchanged; invariant preserved.",
         "time.Time.Before as strict order; that Read applies a one-minute cut-off every minute is covered by the auditd contracts when built; real time is not decided."),
 "C03": ("proof", "DESIGN.md 3.8, 4 (C03)", "contract-based deductive verification: lock-set / atomicity / guard / lock-order obligations from the symbolic execution, plus the sequential invariant proofs as lock invariant",
         "Every path of the four public operations is checked to run inside exactly one critical section of the tracker mutex (no map lock acquired, no guarded map or user field touched outside it, mutex not re-acquired), every access to GenericSyncMap.m holds its mtx, no lock is acquired while held, nothing is held at return. With the sequential proofs (each operation proved from an arbitrary invariant-satisfying state = state havocked at acquisition) this gives, for all schedules and any number of goroutines, linearizability by mutual exclusion, absence of data races on tracker state and of self-deadlock. Found and fixed D1.",
         "The step 'single critical section => serialisable' is a textbook meta-argument, not mechanised; sync.Mutex semantics and the Go memory model are assumed; races outside tracker state are not covered."),
 "C12": ("proof", "DESIGN.md 4 (C12)", "contract-based deductive verification: loop invariant of Ingest's read loop over the assumed contract of bufio.Reader.ReadString and a ghost trace of callback invocations",
         "For every byte stream behind the reader and every callback behaviour: callbacks == records returned so far, in order, exact bytes, same ctx; first callback error returned unchanged and nothing delivered after it; read errors (EOF included) returned, never nil; the unterminated tail is never delivered.",
         "Chunking independence is the assumed bufio contract (stated over the byte stream); the opening goroutine is joined at the receive from the channel it closes."),
 "C13": ("other", "DESIGN.md 3.8(4), 4 (C13)", "contract-based verification, structural back end: blocking-effect obligations over the symbolic execution of every worker (+ SMT obligation for provable channel room)",
         "Every potentially blocking operation of both pipe ingesters, the sshd hand-off, the audit processor, its parser goroutine and the reassembler maintenance loop is proved to be a select with a ctx.Done() arm, a send with provable room, a call to a callee verified cancellable / never blocking, or one of two declared external calls with their wake-up mechanism. Found and fixed D4 (bare send in AuditLogIngester.Process). Level 'other': the safety skeleton (no uncancellable blocking state) is proved; 'returns within a bounded time' is timing and is not decided.",
         "FIFO close wakes ReadString; abandoned os.OpenFile; scheduler fairness; bounded time itself."),
 "C15": ("proof", "DESIGN.md 4 (C15)", "contract-based deductive verification: loop invariant over ghost traces of received lines / pushed messages, error-retention postcondition, channel message invariant, required select arms",
         "parseAuditLogs: bijection between non-empty received lines and pushes, in order, for any stream; ends only by cancellation or with a parse error wrapping the parser's error for the last line. ReassemblyComplete: one hand-off per coalesced event; on failure the 1-slot error channel is non-empty afterwards. Read: non-nil error on every failure arm, RemoteLogin errors cannot be skipped, required receive arms present.",
         "Record grouping inside go-libaudit, select fairness, Sprintf message text are not decided (listed)."),
 "C18": ("proof", "DESIGN.md 4 (C18)", "contract-based deductive verification in lock-invariant mode: registry contents havocked at every lock acquisition, postconditions over the acquire-time snapshot",
         "AddReadiness/OnReady/IsReady/GetReadyzStatusMap/readyzHandler and the WaitForReady goroutine are verified with the registry map havocked each time its lock is taken (all interleavings of lock-respecting goroutines): per-component statuses and 'overall' come from one snapshot, 200 iff that snapshot is all-ready, waiting completes only right after IsReady returned true and yields the context error only on the cancellation arm. Sequences of registrations/ready-marks follow by induction from the setters' exact postconditions.",
         "No component named 'overall'; http/json externs assumed; sync.Mutex semantics."),
 "C20": ("proof", "DESIGN.md 4 (C20)", "contract-based deductive verification: postconditions over the assumed sort.Slice contract (less closure evaluated symbolically), loop invariants over the assumed bufio contract",
         "sortLogNamesOldToNew: result = the kept entries, ordered by numeric age, any number of files (found and fixed D6); readLines: sent lines == complete records without newline, in order, byte count == bytes of complete records; rotatingFile.read: reset on create/remove/rename, seek to the (possibly reset) offset, advance by whole lines only.",
         "loopWithError (goroutines + fsnotify) is not under contract; file names are assumed canonical (audit.log[.N]); bufio/sort contracts assumed."),
 "C08": ("other", "DESIGN.md 4 (C08)", "contract-based verification of the error-propagation chain function by function + structural data-flow facts read off the SSA of RunNamedPipe + the C13 blocking obligations",
         "Proved: IsNamedPipe's result (bit-vector obligation), every pipeline worker only returns non-nil errors, Ingest/Read never return nil and return causes unchanged, all workers run on the errgroup's context derived from the signal context, Wait's error is RunNamedPipe's result, mainWithError returns it, main calls log.Fatalln exactly when it is non-nil; no worker can block uncancellably (C13). Level 'other': these are the necessary per-function conditions; the process-level conclusion (exits within a bounded time, non-zero status) rests on errgroup/signal/OS semantics that are assumed.",
         "errgroup, os/signal, process exit, bounded time and load are not decided; RunNamedPipe is checked structurally, not symbolically executed."),
 "C10": ("other", "DESIGN.md 4 (C10)", "contract-based deductive verification of the causal-order half: channel message invariant (written-before-forwarded) checked at every send, tracker invariant Causal, ghost positions writtenat",
         "Proved for all hand-off orders: a login is only ever forwarded after the successful write of its own event; the tracker only holds written logins and every UserAction it appends comes after the UserLogin whose identity it carries; one Write per event; one shared EventWriter and one logins channel (structural). Level 'other': the 'whole, untorn JSON lines under concurrent writers' half is library/OS behaviour and is not decided by any contract within reach.",
         "encoding/json + O_APPEND atomicity of a single Write is not decided."),
}
na_reason = "not claimed"
props = [json.loads(l) for l in open('/verif/properties.jsonl')]
hooks = subprocess.run(['git','-C','/repo','log','--format=%H %s'],capture_output=True,text=True).stdout.splitlines()
hook_commits = [l.split()[0] for l in hooks if l.split(' ',1)[1].startswith('verif:')]
m = {
 "version": 1,
 "setup_cmd": "cd /verif/govc && GOFLAGS=-mod=mod GOPROXY=off GOSUMDB=off GOTOOLCHAIN=local go build -o /verif/bin/govc .",
 "hooks": {"guard": "verif", "enable": "go/packages is loaded with BuildFlags -tags=verif; the guarded files are comment-only contract files zz_contracts_verif.go (//go:build verif)",
           "baseline_off_cmd": "cd /repo && GOFLAGS=-mod=mod GOPROXY=off GOSUMDB=off GOTOOLCHAIN=local go test -json -vet=off -count=1 -timeout 25m ./...",
           "source_commits": hook_commits, "add_only": True},
 "engines": [{"name": "govc", "path": "/verif/govc", "serves_properties": sorted(claimed), "kind_free_text": "self-written verification-condition generator for Go: symbolic execution of go/ssa (NaiveForm, generics instantiated) against //@ contracts kept in build-tag-guarded comment files in /repo; obligations discharged by a z3 4.8 / z3 5.1 / cvc5 portfolio"}],
 "checks": [], "not_applicable": [],
 "notes": "Contract-based deductive verification of the real code; see DESIGN.md. ./check <id> prints VIOLATION / KNOWN-FINDING lines, writes evidence/<id>.json and replays/<id>/*.json.",
}
for p in props:
    i = p['id']
    if i in claimed:
        lvl, ref, tech, text, note = claimed[i]
        m["checks"].append({"property_id": i, "quick_cmd": f"./check {i}", "thorough_cmd": f"./check {i} --thorough", "evidence_file": f"/verif/evidence/{i}.json",
          "replay_cmd_template": "cat {path}", "engine": "govc", "level_claimed": {"category": lvl, "text": text, "design_ref": ref}, "level_note": note, "technique": tech})
    else:
        m["not_applicable"].append({"property_id": i, "reason": na_reason})
json.dump(m, open('/verif/MANIFEST.json','w'), indent=1)
print(len(m["checks"]), "claimed;", len(m["not_applicable"]), "not claimed")
