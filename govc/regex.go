package main

// Regular expressions: the fragment used by the repository, contracts derived from pattern literals.

import (
	"fmt"
	"go/types"
	"regexp/syntax"
	"strconv"
	"strings"
)

type rxItem struct {
	lit     string // literal text (when class == nil)
	class   []rune // rune ranges lo,hi,lo,hi...
	min     int    // 0 or 1
	max     int    // -1 unbounded, 1 single
	cap     int    // capture index (0 = not captured)
	capName string
}

type regexInfo struct {
	name      string
	pkg       string
	pattern   string
	id        int
	items     []rxItem
	anchorL   bool
	anchorR   bool
	ngroups   int
	names     []string // index -> name
	subsetOK  bool
	subsetWhy string
}

func newRegexInfo(name, pattern string, id int) *regexInfo {
	ri := &regexInfo{name: name, pattern: pattern, id: id, subsetOK: true}
	re, err := syntax.Parse(pattern, syntax.Perl)
	if err != nil {
		ri.subsetOK, ri.subsetWhy = false, err.Error()
		return ri
	}
	ri.ngroups = re.MaxCap()
	ri.names = re.CapNames()
	var subs []*syntax.Regexp
	if re.Op == syntax.OpConcat {
		subs = re.Sub
	} else {
		subs = []*syntax.Regexp{re}
	}
	fail := func(why string) *regexInfo {
		ri.subsetOK, ri.subsetWhy = false, why
		return ri
	}
	for i, s := range subs {
		switch s.Op {
		case syntax.OpBeginText:
			if i != 0 {
				return fail("^ not at start")
			}
			ri.anchorL = true
		case syntax.OpEndText:
			if i != len(subs)-1 {
				return fail("$ not at end")
			}
			ri.anchorR = true
		case syntax.OpLiteral:
			if s.Flags&syntax.FoldCase != 0 {
				return fail("case-insensitive literal")
			}
			ri.items = append(ri.items, rxItem{lit: string(s.Rune)})
		case syntax.OpCapture:
			it, ok := repItem(s.Sub[0])
			if !ok {
				return fail("capture group is not a repetition of a character class: " + s.Sub[0].String())
			}
			it.cap = s.Cap
			it.capName = s.Name
			ri.items = append(ri.items, it)
		default:
			it, ok := repItem(s)
			if !ok {
				return fail("unsupported construct " + s.String())
			}
			ri.items = append(ri.items, it)
		}
	}
	// merge adjacent literals
	var merged []rxItem
	for _, it := range ri.items {
		if n := len(merged); n > 0 && it.class == nil && merged[n-1].class == nil {
			merged[n-1].lit += it.lit
			continue
		}
		merged = append(merged, it)
	}
	ri.items = merged
	return ri
}

func classOf(s *syntax.Regexp) ([]rune, bool) {
	switch s.Op {
	case syntax.OpCharClass:
		return s.Rune, true
	case syntax.OpAnyCharNotNL:
		return []rune{0, '\n' - 1, '\n' + 1, 0x10FFFF}, true
	case syntax.OpAnyChar:
		return []rune{0, 0x10FFFF}, true
	case syntax.OpLiteral:
		if len(s.Rune) == 1 && s.Flags&syntax.FoldCase == 0 {
			return []rune{s.Rune[0], s.Rune[0]}, true
		}
	}
	return nil, false
}

func repItem(s *syntax.Regexp) (rxItem, bool) {
	switch s.Op {
	case syntax.OpStar, syntax.OpPlus:
		if s.Flags&syntax.NonGreedy != 0 {
			return rxItem{}, false
		}
		c, ok := classOf(s.Sub[0])
		if !ok {
			return rxItem{}, false
		}
		min := 0
		if s.Op == syntax.OpPlus {
			min = 1
		}
		return rxItem{class: c, min: min, max: -1}, true
	case syntax.OpCharClass, syntax.OpAnyCharNotNL, syntax.OpAnyChar:
		c, _ := classOf(s)
		return rxItem{class: c, min: 1, max: 1}, true
	}
	return rxItem{}, false
}

// smtClass renders a rune-range class as an SMT regex over single characters.
// Characters above 0xFF are clamped: the code-level contracts only need ASCII distinctions.
func smtClass(c []rune) string {
	var parts []string
	for i := 0; i+1 < len(c); i += 2 {
		lo, hi := c[i], c[i+1]
		if hi > 0x2FFFF {
			hi = 0x2FFFF
		}
		if lo > hi {
			continue
		}
		if lo == hi {
			parts = append(parts, "(str.to_re "+smtChar(lo)+")")
		} else {
			parts = append(parts, "(re.range "+smtChar(lo)+" "+smtChar(hi)+")")
		}
	}
	switch len(parts) {
	case 0:
		return "re.none"
	case 1:
		return parts[0]
	}
	return "(re.union " + strings.Join(parts, " ") + ")"
}

func smtChar(r rune) string {
	if r >= 0x20 && r < 0x7f && r != '"' && r != '\\' {
		return `"` + string(r) + `"`
	}
	return fmt.Sprintf(`"\u{%x}"`, r)
}

func (it rxItem) smtRe() string {
	if it.class == nil {
		return "(str.to_re " + smtStr(it.lit) + ")"
	}
	c := smtClass(it.class)
	switch {
	case it.max == 1:
		return c
	case it.min == 0:
		return "(re.* " + c + ")"
	}
	return "(re.+ " + c + ")"
}

func (ri *regexInfo) matchFn(ex *Exec) string {
	name := "match!" + ri.name
	ex.declareFunRaw(name, "(String) Bool")
	return name
}

func (ri *regexInfo) grpFn(ex *Exec) string {
	name := "grp!" + ri.name
	ex.declareFunRaw(name, "(String Int) String")
	return name
}

func regexOf(v Val) *regexInfo {
	ri, _ := v.Meta.(*regexInfo)
	return ri
}

func init() {
	extraExterns = append(extraExterns, func(w *World) {
		w.ext("(*regexp.Regexp).MatchString", "MatchString(s) <=> FindStringSubmatch(s) != nil (uninterpreted match predicate per pattern)", func(ex *Exec, st *State, c *callCtx) {
			ri := regexOf(c.args[0])
			if ri == nil {
				panic(subsetErr{"regexp method on an unknown pattern"})
			}
			ex.usedRegex[ri.name] = true
			m := "(" + ri.matchFn(ex) + " " + c.args[1].T + ")"
			// derived fact: a ^-anchored pattern that starts with a literal only matches strings with that prefix
			if ri.anchorL && len(ri.items) > 0 && ri.items[0].class == nil {
				st.assume(implies(m, "(str.prefixof "+smtStr(ri.items[0].lit)+" "+c.args[1].T+")"))
			}
			c.k(st, term(m, tBool))
		})
		w.ext("(*regexp.Regexp).SubexpIndex", "SubexpIndex(name): the index read off the pattern literal, -1 if absent", func(ex *Exec, st *State, c *callCtx) {
			ri := regexOf(c.args[0])
			if ri == nil {
				panic(subsetErr{"regexp method on an unknown pattern"})
			}
			nm := c.args[1].T
			if !strings.HasPrefix(nm, `"`) {
				panic(subsetErr{"SubexpIndex with a non-constant name"})
			}
			nm = nm[1 : len(nm)-1]
			idx := -1
			for i, n := range ri.names {
				if i > 0 && n == nm && nm != "" {
					idx = i
					break
				}
			}
			c.k(st, term(smtInt(int64(idx)), tInt))
		})
		w.ext("(*regexp.Regexp).FindStringSubmatch", "FindStringSubmatch(s): nil iff no match; otherwise len == groups+1, s == pre ++ m[0] ++ post, m[0] == concatenation of the pattern's literals and repetitions, m[i] == the i-th captured repetition, each repetition within its character class, pre == \"\" under ^, post == \"\" under $ (derived mechanically from the pattern literal in the current tree)", func(ex *Exec, st *State, c *callCtx) {
			ri := regexOf(c.args[0])
			if ri == nil {
				panic(subsetErr{"regexp method on an unknown pattern"})
			}
			if !ri.subsetOK {
				panic(subsetErr{"regex." + ri.name + ": pattern outside the supported fragment: " + ri.subsetWhy})
			}
			ex.usedRegex[ri.name] = true
			s := c.args[1].T
			st2 := st.clone()
			ex.paths++
			mf := ri.matchFn(ex)
			// no match
			st2.assume(not("(" + mf + " " + s + ")"))
			slT := types.NewSlice(tString)
			// match
			st.assume("(" + mf + " " + s + ")")
			pre, post := `""`, `""`
			if !ri.anchorL {
				pre = ex.fresh("rx_pre", "String")
			}
			if !ri.anchorR {
				post = ex.fresh("rx_post", "String")
			}
			id := st.allocRef("submatch")
			cont := ex.fresh("groups", arr("Int", "String"))
			gf := ri.grpFn(ex)
			for g := 0; g <= ri.ngroups; g++ {
				st.assume(eq(sel(cont, strconv.Itoa(g)), "("+gf+" "+s+" "+strconv.Itoa(g)+")"))
			}
			var parts []string
			for _, it := range ri.items {
				if it.class == nil {
					parts = append(parts, smtStr(it.lit))
					continue
				}
				e := ex.fresh("rx_"+ri.name+"_g", "String")
				st.assume("(str.in_re " + e + " " + it.smtRe() + ")")
				parts = append(parts, e)
				if it.cap > 0 {
					st.assume(eq(sel(cont, strconv.Itoa(it.cap)), e))
					// derived facts (consequences of the decomposition, stated to spare the solver the word equation)
					st.assume("(str.contains " + s + " " + e + ")")
					if p, ok := ex.substrOf[s]; ok {
						st.assume("(str.contains " + p + " " + e + ")")
					}
				}
			}
			m0 := parts[0]
			if len(parts) > 1 {
				m0 = "(str.++ " + strings.Join(parts, " ") + ")"
			}
			st.assume(eq(sel(cont, "0"), m0))
			whole := m0
			if pre != `""` || post != `""` {
				whole = "(str.++ " + pre + " " + m0 + " " + post + ")"
			}
			st.assume(eq(s, whole))
			if ri.anchorL && len(ri.items) > 0 && ri.items[0].class == nil {
				st.assume("(str.prefixof " + smtStr(ri.items[0].lit) + " " + s + ")")
			}
			for _, it := range ri.items {
				if it.class == nil {
					st.assume("(str.contains " + s + " " + smtStr(it.lit) + ")")
				}
			}
			reg, sort := sliceRegion(tString)
			st.setRegion(reg, sort, store(st.region(reg, sort), id, cont))
			c.k(st, Val{K: KSlice, Typ: slT, Fs: []Val{term(id, tInt), term("0", tInt), term(strconv.Itoa(ri.ngroups+1), tInt)}})
			c.k(st2, Val{K: KSlice, Typ: slT, Fs: []Val{term("0", tInt), term("0", tInt), term("0", tInt)}})
		})
	})
}

var extraExterns []func(*World)
