package main

// Verification of one function against its contract.

import (
	"fmt"
	"go/types"
	"strings"

	"golang.org/x/tools/go/ssa"
)

type FuncResult struct {
	Key         string
	Name        string
	Obls        []*Obligation
	Paths       int
	Inlined     []string
	Externs     []string
	Contracts   []string
	Regexes     []string
	Blocking    []blockingOp
	Spawned     []string
	HasContract bool
	script      *smtScript
	LockSites   int
}

func (w *World) newExec(fn *ssa.Function, ct *Contract, name string, mode execMode) *Exec {
	return &Exec{w: w, root: fn, rootName: name, contract: ct, decls: map[string]string{}, regSorts: map[string]string{},
		obls: map[string]*Obligation{}, maxPaths: 4000, inlined: map[string]bool{}, externs: map[string]bool{},
		entryVals: map[string]Val{}, mode: mode, tagTypes: tagTypeTable, siteCtr: map[string]int{}, usedContracts: map[string]bool{},
		usedRegex: map[string]bool{}, funs: map[string]string{}, assertCtr: map[string]int{}}
}

func instName(fn *ssa.Function) string {
	n := shortFn(fn)
	if ta := fn.TypeArgs(); len(ta) > 0 {
		var ts []string
		for _, t := range ta {
			ts = append(ts, typeName(t))
		}
		n += "<" + strings.Join(ts, ";") + ">"
	}
	return n
}

func (w *World) verifyFunc(fn *ssa.Function, ct *Contract, mode execMode) *FuncResult {
	name := instName(fn)
	ex := w.newExec(fn, ct, name, mode)
	st := &State{ex: ex, heap: map[string]string{}, cells: map[int]Val{}}
	res := &FuncResult{Key: fnKey(fn), Name: name, HasContract: ct != nil}
	func() {
		defer func() {
			if r := recover(); r != nil {
				if se, ok := r.(subsetErr); ok {
					ex.subsetFail(st, se.msg)
					return
				}
				panic(r)
			}
		}()
		args := make([]Val, len(fn.Params))
		ex.inputTerms = map[string]string{}
		for i, p := range fn.Params {
			v := st.freshVal("p_"+p.Name(), p.Type())
			args[i] = v
			ex.entryVals[p.Name()] = v
			for old, now := range ex.w.renames[nameKey(fn)] {
				if now == p.Name() {
					ex.entryVals[old] = v
				}
			}
			ex.recordInputs(st, p.Name(), v)
		}
		var binds []Val
		for _, fv := range fn.FreeVars {
			// closure verified on its own: captured variables are unconstrained cells
			et := fv.Type().Underlying()
			_ = et
			c := ex.newCell(fv.Name(), derefType(fv.Type()))
			st.cells[c.ID] = st.freshVal("fv_"+fv.Name(), derefType(fv.Type()))
			ex.entryVals[fv.Name()] = st.cells[c.ID]
			for old, now := range ex.w.renames[nameKey(fn)] {
				if now == fv.Name() {
					ex.entryVals[old] = st.cells[c.ID]
				}
			}
			ex.recordInputs(st, fv.Name(), st.cells[c.ID])
			binds = append(binds, Val{K: KCellPtr, Typ: fv.Type(), Cell: c})
		}
		ex.initGhost(st)
		st.assume("(>= " + st.region("G!out#len", "Int") + " 0)")
		st.assume(not(sel(st.region("A", arr("Int", "Bool")), "0"))) // nil is not an allocated object
		for _, g := range []string{"G!push#len", "G!cb#len", "G!ctrsum", "G!rdcount", "G!g_http_calls"} {
			if _, ok := ex.regSorts[g]; ok {
				st.assume("(>= " + st.region(g, "Int") + " 0)")
			}
		}
		for _, g := range []string{"G!sentlen", "G!recvlen", "G!rdrec", "G!chancap"} {
			a := st.region(g, arr("Int", "Int"))
			st.assume("(forall ((c!g Int)) (! (>= (select " + a + " c!g) 0) :pattern ((select " + a + " c!g))))")
		}
		if ct != nil {
			e := &env{vars: map[string]Val{}}
			for _, r := range ct.requires {
				if ex.requireLocks(st, r.expr, e) {
					continue
				}
				st.assume(ex.evalBool(st, r.expr, e))
			}
		}
		ex.entryHeap = st.snapshotHeap()
		ex.atomicInit(st)
		if ct != nil {
			// ghost code at entry (after the pre-state snapshot, so old() sees the values before)
			e := &env{vars: map[string]Val{}}
			for _, ga := range ct.ghostSet {
				sort, ok := w.ghostVars[ga.name]
				if !ok {
					panic(subsetErr{"contract-binding: undeclared ghost variable " + ga.name})
				}
				v := ex.eval(st, ga.expr, e)
				st.setRegion("G!"+ga.name, sort, ex.asTerm(v))
			}
		}
		fr := ex.pushFrame(st, fn, args, binds, func(st *State, r Val) { ex.atExit(st, r) })
		fr.isRoot = true
		ex.run(st, fn.Blocks[0], 0)
	}()
	for _, n := range ex.oblOrder {
		res.Obls = append(res.Obls, ex.obls[n])
	}
	res.Paths = ex.paths + 1
	res.Inlined = sortedKeys(ex.inlined)
	res.Externs = sortedKeys(ex.externs)
	res.Contracts = sortedKeys(ex.usedContracts)
	res.Regexes = sortedKeys(ex.usedRegex)
	res.Blocking = ex.blocking
	res.LockSites = ex.lockSites
	for _, f := range ex.spawned {
		res.Spawned = append(res.Spawned, shortFn(f))
	}
	ex.structuralClauses(res)
	res.Obls = res.Obls[:0]
	for _, n := range ex.oblOrder {
		res.Obls = append(res.Obls, ex.obls[n])
	}
	res.script = &smtScript{decls: ex.decls, declOrder: ex.declOrder, funs: ex.funs, funOrder: ex.funOrder, axioms: ex.axioms}
	return res
}

func (ex *Exec) declareFunRaw(name, sig string) {
	if _, ok := ex.funs[name]; ok {
		return
	}
	ex.funs[name] = sig
	ex.funOrder = append(ex.funOrder, name)
}

func (ex *Exec) declareFun(name string, uf ufunc) {
	ex.declareFunRaw(name, "("+strings.Join(uf.args, " ")+") "+uf.ret)
}

// atExit: postconditions, frame, lock balance, vacuity canary.
func (ex *Exec) atExit(st *State, res Val) {
	if st.dry {
		return
	}
	ct := ex.contract
	ex.exits++
	if ex.exits <= 2 {
		ob := ex.obl(ex.rootName+"/vacuity", "vacuity")
		ob.VCs = append(ob.VCs, VC{pc: append([]string(nil), st.pc...), goal: "false", note: "reachability canary"})
	}
	if len(st.locks) != ex.preLocks {
		ex.record(st, ex.rootName+"/lockorder:held-at-return", "lockorder", "false", "lock set at return differs from the lock set at entry: "+strings.Join(st.locks, ","))
	}
	if ct == nil {
		return
	}
	e := &env{vars: map[string]Val{}, result: &res}
	ex.bindNamedResults(ex.root, e, res)
	for _, ga := range ct.ghostExit {
		sort, ok := ex.w.ghostVars[ga.name]
		if !ok {
			panic(subsetErr{"contract-binding: undeclared ghost variable " + ga.name})
		}
		v := ex.eval(st, ga.expr, e)
		st.setRegion("G!"+ga.name, sort, ex.asTerm(v))
	}
	for _, en := range ct.ensures {
		if strings.HasPrefix(en.label, "fatal") {
			continue // proved where the process is terminated (log.Fatalln), not at normal return
		}
		ex.proveEnsures(st, en, e)
	}
	if ct.hasMod {
		ex.frameCheck(st, ct, e)
	}
}

// frameCheck: everything outside the modifies clause is unchanged for objects allocated at entry.
func (ex *Exec) frameCheck(st *State, ct *Contract, e *env) {
	old := st.withHeap(ex.entryHeap)
	targets := ex.modTargets(old, ct, e)
	st.adopt(old)
	a0 := ex.entryHeap["A"]
	if a0 == "" {
		a0 = old.region("A", arr("Int", "Bool"))
	}
	for _, r := range sortedKeys(ex.regSorts) {
		now := st.heap[r]
		was, ok := ex.entryHeap[r]
		if !ok {
			was = sanitize(r) + "!0"
		}
		if now == "" || now == was {
			continue
		}
		if r == "G!tokens" {
			continue // bookkeeping of tracked channels (always local to the function that made them, see tokenTracked)
		}
		if ex.mode.concurrency && ex.isGuardedMapRegion(r) {
			continue // changed by the environment havoc at lock acquisition, not by this function
		}
		var refs []string
		whole := false
		for _, t := range targets {
			if matchRegion(t.region, r) {
				if t.ref == "" {
					whole = true
				} else {
					refs = append(refs, t.ref)
				}
			}
		}
		if whole {
			continue
		}
		sort := ex.regSorts[r]
		var goal string
		if strings.HasPrefix(sort, "(Array Int ") && (!strings.HasPrefix(r, "G!") || len(refs) > 0) {
			var ne []string
			for _, ref := range refs {
				ne = append(ne, not(eq("r!f", ref)))
			}
			goal = "(forall ((r!f Int)) (=> " + and(append([]string{"(select " + a0 + " r!f)"}, ne...)...) + " (= (select " + now + " r!f) (select " + was + " r!f))))"
		} else {
			goal = eq(now, was)
		}
		ex.record(st, ex.rootName+"/frame:"+r, "frame", goal, "region "+r+" changed outside the modifies clause")
	}
}

func (r *FuncResult) summary() string {
	ok, bad := 0, 0
	for _, o := range r.Obls {
		if o.Status == "discharged" {
			ok++
		} else {
			bad++
		}
	}
	return fmt.Sprintf("%s: %d obligations, %d discharged, %d failed, %d paths", r.Name, len(r.Obls), ok, bad, r.Paths)
}

// initGhost materialises every ghost region so that frames and havocs range over all of them.
func (ex *Exec) initGhost(st *State) {
	ii := arr("Int", "Int")
	for name, sort := range map[string]string{
		"A": arr("Int", "Bool"), "G!out#len": "Int", "G!out!#ref": ii, "G!wfailed": "Bool",
		"G!ctr": arr("String", arr("String", "Int")), "G!ctrsum": "Int", "G!ctrl1": arr("Int", "String"), "G!ctrl2": arr("Int", "String"),
		"G!sentlen": ii, "G!recvlen": ii, "G!sentstamp": arr("Int", ii), "G!closed": arr("Int", "Bool"), "G!cancelled": arr("Int", "Bool"),
		"G!chancap": ii, "G!clock": "Int", "G!dyn": ii, "G!wraps": ii, "G!jsonof": ii, "I!String": arr("Int", "String"), "I!Int": ii, "I!Bool": arr("Int", "Bool"),
		"G!donechan": ii, "G!ctxerr": ii, "G!out!#src": ii, "G!out!#by": ii,
		"G!cb#len": "Int", "G!cb!ret": ii, "G!cb!fn": ii, "G!cb!arg0$Int": ii, "G!cb!arg1$String": arr("Int", "String"),
		"G!push#len": "Int", "G!push!msg": ii, "G!push!src": ii, "G!pushedat": ii, "G!msgline": arr("Int", "String"), "G!reassstream": ii,
		"G!lastrecv": "Int", "G!recvd!String": arr("Int", arr("Int", "String")), "G!recvd!Int": arr("Int", ii), "G!tickperiod": ii, "G!tickerof": ii, "G!writtenat": ii, "G!g_stat_info": "Int", "G!g_stat_err": "Int", "G!g_sigctx": "Int", "G!g_fatal": "Bool", "G!filemode": ii, "G!rdgood": ii, "G!dirent_name": arr("Int", "String"), "G!dirent_isdir": arr("Int", "Bool"), "G!rdlast": "Int", "G!rdcount": "Int", "G!rdrec": ii, "G!rdpos": ii, "G!rdstream": arr("Int", arr("Int", "String")), "G!rdlasterr": ii, "G!rdsrc": ii,
	} {
		st.region(name, sort)
	}
	if et := ex.auditEventT(); et != nil {
		for _, lf := range leaves(et) {
			reg, s := outLeafRegion(lf.path, lf.sort)
			st.region(reg, s)
			if mt, ok := lf.typ.Underlying().(*types.Map); ok {
				ks, vs := scalarSort(mt.Key()), scalarSort(mt.Elem())
				st.region("G!out!"+lf.path+"#dom", arr("Int", arr(ks, "Bool")))
				st.region("G!out!"+lf.path+"#val", arr("Int", arr(ks, vs)))
			}
		}
	}
	for _, et := range ex.w.chanElemTypes() {
		for _, lf := range leaves(et) {
			reg, s := sentRegion(et, lf)
			st.region(reg, s)
		}
	}
	for name, sort := range ex.w.ghostVars {
		st.region("G!"+name, sort)
	}
	// acquire-time snapshots of every guarded map type
	for _, mt := range ex.w.guardedMapTypes() {
		_, ds := mapRegions(mt)
		st.region("G!snap!"+typeName(mt)+"!dom", ds)
		for _, lf := range leaves(mt.Elem()) {
			_, vs := mapValRegion(mt, lf)
			sv := "G!snap!" + typeName(mt) + "!val"
			if lf.path != "" {
				sv += "!" + lf.path
			}
			st.region(sv, vs)
		}
	}
}

// recordInputs remembers the terms whose model values describe the function's inputs.
func (ex *Exec) recordInputs(st *State, name string, v Val) {
	switch v.K {
	case KTerm:
		ex.inputTerms[name] = v.T
		if v.Typ == nil {
			return
		}
		if pt, ok := v.Typ.Underlying().(*types.Pointer); ok && isStructT(pt.Elem()) {
			func() {
				defer func() { recover() }()
				for _, lf := range leaves(pt.Elem()) {
					if lf.sort == "String" || lf.sort == "Int" || lf.sort == "Bool" {
						ex.inputTerms[name+"."+lf.path] = st.readLeaf(pt.Elem(), lf.path, lf.sort, v.T)
					}
				}
			}()
		}
	case KStruct:
		s := v.Typ.Underlying().(*types.Struct)
		for i, f := range v.Fs {
			ex.recordInputs(st, name+"."+s.Field(i).Name(), f)
		}
	case KSlice:
		ex.inputTerms[name+".#len"] = v.Fs[2].T
	}
}

// requireLocks: a precondition holds(obj,"f") puts the lock into the initial lock set.
func (ex *Exec) requireLocks(st *State, n *node, e *env) bool {
	if n.op == "call" && n.args[0].op == "ident" && n.args[0].name == "holds" && len(n.args) == 3 && n.args[2].op == "lit-str" {
		obj := ex.eval(st, n.args[1], e)
		if obj.Typ == nil {
			return false
		}
		st.locks = append(st.locks, lockTag(derefType(obj.Typ), n.args[2].name)+"@"+obj.T)
		ex.preLocks = len(st.locks)
		return true
	}
	return false
}

func (ex *Exec) isGuardedMapRegion(r string) bool {
	for _, mt := range ex.w.guardedMapTypes() {
		if strings.HasPrefix(r, "M!"+typeName(mt)+"!") {
			return true
		}
	}
	return false
}

// structuralClauses: obligations decided on the SSA and on the recorded blocking operations (back end "structural").
func (ex *Exec) structuralClauses(res *FuncResult) {
	ct := ex.contract
	if ct == nil {
		return
	}
	// every assert_at clause must have been reached by some path (otherwise it checks nothing)
	for _, key := range sortedKeys(ct.asserts) {
		if !ex.assertSeen[key] {
			ob := ex.obl(ex.rootName+"/assert_at-unreached:"+key, "structural")
			ob.VCs = append(ob.VCs, VC{goal: "false", note: "assert_at " + key + ": no call of that name is reached on any path: the clause is vacuous"})
		}
	}
	// tokens: every producer and consumer of the channel held in the named local must be visible to the verifier
	for _, tn := range ct.tokens {
		ob := ex.obl(ex.rootName+"/tokens:"+tn+":tracked", "structural")
		if why := ex.tokenTracked(tn); why == "" {
			ob.VCs = append(ob.VCs, VC{goal: "true", note: "all uses of " + tn + " are sends, receives, select arms, close, or captures by goroutines with a `sends " + tn + " once` contract"})
		} else {
			ob.VCs = append(ob.VCs, VC{goal: "false", note: "channel " + tn + " is not token-trackable: " + why})
		}
	}
	// selects: the function must have a select receive arm for each named channel
	if len(ct.selects) > 0 {
		have := map[string]bool{}
		for _, b := range ex.root.Blocks {
			for _, in := range b.Instrs {
				sel, ok := in.(*ssa.Select)
				if !ok {
					continue
				}
				for _, s := range sel.States {
					if s.Dir == types.RecvOnly {
						have[chanSourceName(s.Chan)] = true
					}
				}
			}
		}
		for _, want := range ct.selects {
			ob := ex.obl(ex.rootName+"/selects:"+want, "structural")
			if !have[want] {
				// the channel variable was renamed since the contract was written (specs/names.json)
				base, rest := want, ""
				if i := strings.Index(want, "."); i >= 0 {
					base, rest = want[:i], want[i:]
				}
				if now := ex.w.renamed(ex.root, base); now != "" && have[now+rest] {
					have[want] = true
				}
			}
			if have[want] {
				ob.VCs = append(ob.VCs, VC{goal: "true", note: "select receives from " + want})
			} else {
				ob.VCs = append(ob.VCs, VC{goal: "false", note: "no select arm receives from " + want + " (arms found: " + strings.Join(sortedKeys(have), ", ") + ")"})
			}
		}
	}
	if ct.blocksNever {
		ob := ex.obl(ex.rootName+"/blocks:never", "structural")
		if len(ex.blocking) == 0 {
			ob.VCs = append(ob.VCs, VC{goal: "true", note: "no channel operation, blocking call or call to a possibly blocking function on any path (callbacks executed in place)"})
		} else {
			ob.VCs = append(ob.VCs, VC{goal: "false", note: "declared never to block but performs: " + ex.blocking[0].Note + " at " + ex.blocking[0].Site})
		}
	}
	// blocks cancellable: every blocking operation recorded during symbolic execution is cancellable or a declared external
	if ct.blocksCancellable {
		seen := map[string]bool{}
		n := 0
		for _, b := range ex.blocking {
			key := b.Site + b.Kind
			if seen[key] {
				continue
			}
			seen[key] = true
			n++
			ob := ex.obl(fmt.Sprintf("%s/blocks:%s@%s", ex.rootName, b.Kind, b.Site), "structural")
			okv := b.Cancellable
			why := b.Note
			if !okv && b.Kind == "external" {
				for _, e := range ct.blockExt {
					name := strings.TrimSpace(strings.SplitN(e, ":", 2)[0])
					if strings.Contains(b.Note, name) {
						okv = true
						why += " — declared external, woken by: " + e
					}
				}
			}
			if okv {
				ob.VCs = append(ob.VCs, VC{goal: "true", note: why})
			} else {
				ob.VCs = append(ob.VCs, VC{goal: "false", note: "blocking operation that cancellation cannot interrupt: " + b.Note + " on " + b.Chan})
			}
		}
		ob := ex.obl(ex.rootName+"/blocks:scan", "structural")
		ob.VCs = append(ob.VCs, VC{goal: "true", note: fmt.Sprintf("%d blocking operations examined", n)})
	}
}

// chanSourceName names the source of a channel value: local variable, field, or ctx.Done.
func chanSourceName(v ssa.Value) string {
	switch x := v.(type) {
	case *ssa.UnOp:
		switch a := x.X.(type) {
		case *ssa.Alloc:
			return a.Comment
		case *ssa.FieldAddr:
			base := ""
			if u, ok := a.X.(*ssa.UnOp); ok {
				if al, ok := u.X.(*ssa.Alloc); ok {
					base = al.Comment + "."
				}
			}
			st := derefType(a.X.Type()).Underlying().(*types.Struct)
			return base + st.Field(a.Field).Name()
		case *ssa.FreeVar:
			return a.Name()
		}
	case *ssa.Call:
		if x.Common().IsInvoke() && x.Common().Method.Name() == "Done" {
			return "ctx.Done"
		}
	case *ssa.Field:
		return x.Name()
	}
	return v.Name()
}

// tokenTracked checks, on the SSA of the root function, that the channel stored in local variable name is made here and
// only used in ways the token count accounts for. It returns "" or the reason it is not.
func (ex *Exec) tokenTracked(name string) string {
	var al *ssa.Alloc
	for _, b := range ex.root.Blocks {
		for _, in := range b.Instrs {
			if a, ok := in.(*ssa.Alloc); ok && a.Comment == name {
				al = a
			}
		}
	}
	if al == nil {
		return "no local variable of that name"
	}
	var okUse func(v ssa.Value, inClosure bool) string
	okUse = func(v ssa.Value, inClosure bool) string {
		for _, r := range *v.Referrers() {
			switch x := r.(type) {
			case *ssa.Send:
				if x.Chan != v {
					return "the channel itself is sent as a value"
				}
			case *ssa.Select:
				if inClosure {
					for _, s := range x.States {
						if s.Chan == v && s.Dir == types.RecvOnly {
							return "a goroutine receives from it"
						}
					}
				}
			case *ssa.UnOp:
				if inClosure {
					return "a goroutine receives from it"
				}
			case *ssa.Call:
				if bi, ok := x.Common().Value.(*ssa.Builtin); !ok || (bi.Name() != "close" && bi.Name() != "len" && bi.Name() != "cap") {
					return "passed to " + x.Common().Value.Name()
				}
			case *ssa.ChangeType:
				// chan T -> chan<- T / <-chan T
				if why := okUse(x, inClosure); why != "" {
					return why
				}
			case *ssa.Go:
				// handed to a goroutine started from a named function: that function must declare `sends <name> once`
				// for the parameter it receives the channel in, and must only send on it
				cf := x.Common().StaticCallee()
				if inClosure || cf == nil {
					return "handed to a goroutine that is not a static call"
				}
				gct := ex.w.contractFor(cf)
				okDecl := false
				for ai, a := range x.Common().Args {
					if a != v || ai >= len(cf.Params) {
						continue
					}
					pname := cf.Params[ai].Name()
					if gct != nil {
						for _, sname := range gct.sendsOnce {
							if sname == pname || ex.w.renamed(cf, sname) == pname {
								okDecl = true
							}
						}
					}
					for _, pr := range *cf.Params[ai].Referrers() {
						if st, ok := pr.(*ssa.Store); ok {
							if al2, ok := st.Addr.(*ssa.Alloc); ok {
								for _, r2 := range *al2.Referrers() {
									if ld, ok := r2.(*ssa.UnOp); ok {
										for _, r3 := range *ld.Referrers() {
											switch y := r3.(type) {
											case *ssa.Send:
												if y.Chan != ld {
													return "in " + shortFn(cf) + ": the channel itself is sent as a value"
												}
											case *ssa.DebugRef:
											default:
												return "in " + shortFn(cf) + ": " + fmt.Sprintf("used by %T", r3)
											}
										}
									}
								}
							}
						}
					}
				}
				if !okDecl {
					return "handed to goroutine " + shortFn(cf) + ", which has no `sends " + name + " once` contract"
				}
			case *ssa.DebugRef:
			default:
				return fmt.Sprintf("used by %T", r)
			}
		}
		return ""
	}
	for _, r := range *al.Referrers() {
		switch x := r.(type) {
		case *ssa.Store:
			if x.Addr != al {
				return "its address is stored"
			}
			if _, ok := x.Val.(*ssa.MakeChan); !ok {
				return "assigned from something other than make(chan)"
			}
		case *ssa.UnOp:
			if why := okUse(x, false); why != "" {
				return why
			}
		case *ssa.MakeClosure:
			cf := x.Fn.(*ssa.Function)
			gct := ex.w.contractFor(cf)
			declared := false
			if gct != nil {
				for _, sname := range gct.sendsOnce {
					if sname == name {
						declared = true
					}
				}
			}
			for i, bnd := range x.Bindings {
				if bnd != al {
					continue
				}
				fvar := cf.FreeVars[i]
				uses := 0
				for _, fr := range *fvar.Referrers() {
					if ld, ok := fr.(*ssa.UnOp); ok {
						uses++
						if why := okUse(ld, true); why != "" {
							return "in " + shortFn(cf) + ": " + why
						}
					} else if _, ok := fr.(*ssa.DebugRef); !ok {
						return "in " + shortFn(cf) + ": " + fmt.Sprintf("captured variable used by %T", fr)
					}
				}
				if uses > 0 && !declared {
					return "captured by " + shortFn(cf) + ", which has no `sends " + name + " once` contract"
				}
			}
		case *ssa.DebugRef:
		default:
			return fmt.Sprintf("variable used by %T", r)
		}
	}
	return ""
}
