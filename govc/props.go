package main

// Property-level checks: which obligations constitute which property, evidence, VIOLATION lines.

import (
	"encoding/json"
	"flag"
	"fmt"
	"os"
	"os/exec"
	"path/filepath"
	"regexp"
	"sort"
	"strconv"
	"strings"
	"time"
)

// unit: one function under contract whose obligations (filtered) belong to a property.
type unit struct {
	Fn      string   // "<pkg-relative path>.<short name>"
	Include []string // regexps on the obligation name after "<fn>/"; empty = all
	Exclude []string // regexps removing obligations again
	Conc    bool     // concurrency mode (lock invariants)
}

// lemmaUnit: a lemma generator (regular-language lemmas etc.).
type lemmaUnit struct {
	Name string
	Args []string
}

type propDef struct {
	ID         string
	Level      string
	Units      []unit
	Lemmas     []lemmaUnit
	Structural []string
	Assume     []string
	Explain    string
}

func u(fn string, inc ...string) unit { return unit{Fn: fn, Include: inc} }

type Finding struct {
	Property   string `json:"property"`
	Obligation string `json:"obligation"`
	What       string `json:"what"`
	Status     string `json:"status"` // open | fixed
	Commit     string `json:"commit,omitempty"`
}

type oblReport struct {
	Name    string  `json:"name"`
	Kind    string  `json:"kind"`
	Status  string  `json:"status"`
	Backend string  `json:"backend"`
	TimeS   float64 `json:"time_s"`
	VCs     int     `json:"vcs"`
	SmtSize int     `json:"smt_bytes,omitempty"`
	Detail  string  `json:"detail,omitempty"`
	Spec    string  `json:"spec,omitempty"`
}

func verifRoot() string {
	if d := os.Getenv("VERIF_ROOT"); d != "" {
		return d
	}
	return "/verif"
}

func loadFindings() []Finding {
	var fs []Finding
	b, err := os.ReadFile(filepath.Join(verifRoot(), "known_findings.json"))
	if err != nil {
		return nil
	}
	var doc struct {
		Findings []Finding `json:"findings"`
	}
	if json.Unmarshal(b, &doc) == nil {
		fs = doc.Findings
	}
	return fs
}

func cmdCheck(args []string) {
	fs := flag.NewFlagSet("check", flag.ExitOnError)
	repo := fs.String("repo", "/repo", "repository")
	thorough := fs.Bool("thorough", false, "thorough tier")
	list := fs.Bool("list", false, "list obligations")
	noEvidence := fs.Bool("no-evidence", false, "do not write evidence/replay files (self-test runs)")
	fs.Parse(args)
	if fs.NArg() < 1 {
		fmt.Println("usage: govc check [--thorough] <Cnn>")
		os.Exit(2)
	}
	id := fs.Arg(0)
	if os.Getenv("VERIF_TIER") == "thorough" {
		*thorough = true
	}
	seed, _ := strconv.Atoi(os.Getenv("VERIF_SEED"))
	pd, ok := propDefs()[id]
	if !ok {
		fmt.Printf("property %s is not claimed by this machinery\n", id)
		os.Exit(2)
	}
	t0 := time.Now()
	w, err := loadWorld(*repo)
	if err != nil {
		// a tree that does not load cannot be verified: report as engine failure, not as a pass
		fmt.Println("govc: cannot load /repo:", err)
		os.Exit(2)
	}
	work, _ := os.MkdirTemp("", "govc-"+id+"-")
	if os.Getenv("GOVC_KEEP") == "" {
		defer os.RemoveAll(work)
	} else {
		fmt.Fprintln(os.Stderr, "govc: keeping", work)
	}
	timeout := 30
	if *thorough {
		timeout = 90
	}
	if v, err := strconv.Atoi(os.Getenv("GOVC_TIMEOUT")); err == nil && v > 0 {
		timeout = v // debugging aid (forcing undecided obligations); never set by the registered commands
	}
	opts := solveOpts{timeoutS: timeout, workDir: work, all: *thorough, par: 8}

	var reports []oblReport
	var failed []*Obligation
	var pendingObs []*Obligation
	funcs := map[string]bool{}
	inlined := map[string]bool{}
	externs := map[string]bool{}
	contractsUsed := map[string]bool{}
	regexes := map[string]bool{}
	backends := map[string]int{}
	solverTime := 0.0
	var engineErrs []string
	var samples []any

	// Worklist: the property's units, then (transitively) every module function whose contract a verified unit relied on
	// at a call site — a caller is checked against the callee's contract, so the callee must be checked against it too.
	units := append([]unit(nil), pd.Units...)
	haveUnit := map[string]bool{}
	for _, un := range units {
		haveUnit[un.Fn] = true
	}
	depUnits := map[string]bool{}
	unmatched := map[string]bool{} // "<fn>: <pattern>" for clause filters that selected no obligation (a stale filter checks nothing)
	assumedBodies := map[string]string{}
	heldBack := map[string][]*Obligation{}
	for ui := 0; ui < len(units); ui++ {
		un := units[ui]
		key := modulePath + "/" + un.Fn
		if strings.HasPrefix(un.Fn, "main.") {
			key = modulePath + "." + strings.TrimPrefix(un.Fn, "main.")
		}
		fns := w.findFuncs(key)
		if len(fns) == 0 {
			// the function the property is anchored in no longer exists under that name
			ob := &Obligation{Name: un.Fn + "/contract-binding:function-not-found", Kind: "subset", Status: "failed", Solver: "structural", Detail: "function under contract not found in the current tree"}
			if alt := toggleRecv(key); alt != key && len(w.findFuncs(alt)) > 0 {
				ob.Name = un.Fn + "/receiver-kind-changed"
				ob.Detail = "the method under contract now has the other receiver kind (" + strings.TrimPrefix(alt, modulePath+"/") + "): a value receiver operates on a copy of the object (its mutex and fields are copied), so the contract about the shared object cannot bind"
			}
			failed = append(failed, ob)
			reports = append(reports, oblReport{Name: ob.Name, Kind: ob.Kind, Status: ob.Status, Backend: ob.Solver, Detail: ob.Detail})
			continue
		}
		var incs []*regexp.Regexp
		for _, p := range un.Include {
			incs = append(incs, regexp.MustCompile(p))
		}
		for _, fn := range fns {
			res := w.verifyFunc(fn, w.contractFor(fn), execMode{concurrency: un.Conc})
			var sel []*Obligation
			hits := make([]int, len(incs))
			for _, o := range res.Obls {
				suffix := strings.TrimPrefix(o.Name, res.Name+"/")
				// structurally split goals (ensures:label.1.2, ensures:label:Pred.1, ensures:label~pos) match as their clause
				base := suffix
				if strings.HasPrefix(suffix, "ensures:") {
					rest := suffix[len("ensures:"):]
					if i := strings.IndexAny(rest, ".:~"); i >= 0 {
						base = "ensures:" + rest[:i]
					}
				}
				keep := len(incs) == 0 || o.Kind == "subset" || o.Kind == "cover" || o.Kind == "vacuity"
				for i, re := range incs {
					if re.MatchString(suffix) || re.MatchString(base) {
						keep = true
						hits[i]++
					}
				}
				for _, p := range un.Exclude {
					if regexp.MustCompile(p).MatchString(suffix) {
						keep = false
					}
				}
				if keep {
					sel = append(sel, o)
				}
			}
			for i, n := range hits {
				// kinds that exist only where the code has the construct (or only on failure) may legitimately select nothing
				optional := regexp.MustCompile(`^\^?(unlock-unheld|lockorder|guard|atomic|frame|ghost|assert_at|inv-|pre:|blocks|selects|tokens)`).MatchString(un.Include[i])
				if n == 0 && ui < len(pd.Units) && !optional {
					unmatched[un.Fn+": "+un.Include[i]] = true
				}
			}
			for _, o := range res.Obls {
				o.script = res.script
			}
			pendingObs = append(pendingObs, sel...)
			isSel := map[*Obligation]bool{}
			for _, o := range sel {
				isSel[o] = true
			}
			for _, o := range res.Obls {
				if !isSel[o] {
					heldBack[un.Fn] = append(heldBack[un.Fn], o)
				}
			}
			funcs[res.Name] = true
			for _, x := range res.Inlined {
				inlined[x] = true
			}
			for _, x := range res.Externs {
				externs[x] = true
			}
			for _, x := range res.Contracts {
				contractsUsed[x] = true
				short := strings.TrimPrefix(strings.TrimPrefix(x, modulePath+"/"), modulePath+".")
				if strings.HasPrefix(x, modulePath+".") {
					short = "main." + short
				}
				if ct := w.contracts[x]; ct != nil && ct.assumed != "" {
					assumedBodies[x] = ct.assumed
					continue
				}
				if !haveUnit[short] && len(w.findFuncs(x)) > 0 {
					haveUnit[short] = true
					depUnits[short] = true
					units = append(units, unit{Fn: short, Include: []string{`^ensures:`, `^inv-`, `^frame:`, `^assert_at`, `^ghost`}})
				}
			}
			for _, x := range res.Regexes {
				regexes[x] = true
			}
		}
	}
	// A unit listed with a filter whose contract is also relied on at a call site of another unit must be checked against
	// its whole contract (every clause, its frame, its invariants, the preconditions of its own callees), not only the
	// clauses the property names: the callers assumed all of it.
	for x := range contractsUsed {
		short := strings.TrimPrefix(strings.TrimPrefix(x, modulePath+"/"), modulePath+".")
		if strings.HasPrefix(x, modulePath+".") {
			short = "main." + short
		}
		if obs := heldBack[short]; len(obs) > 0 {
			pendingObs = append(pendingObs, obs...)
			delete(heldBack, short)
			depUnits[short+" (whole contract)"] = true
		}
	}
	// discharge the obligations of all units together (16 cores)
	solveAll(nil, pendingObs, opts)
	for _, o := range pendingObs {
		rep := oblReport{Name: o.Name, Kind: o.Kind, Status: o.Status, Backend: o.Solver, TimeS: round3(o.TimeS), VCs: len(o.VCs), SmtSize: o.SmtSize}
		if len(o.VCs) > 0 {
			rep.Spec = o.VCs[0].note
		}
		if o.Status != "discharged" {
			rep.Detail = trunc(o.Detail, 600)
			failed = append(failed, o)
		}
		if o.Status == "error" {
			engineErrs = append(engineErrs, o.Name+": "+o.Detail)
		}
		reports = append(reports, rep)
		backends[backendName(o)]++
		solverTime += o.TimeS
	}
	for _, lu := range pd.Lemmas {
		obs, assume := w.runLemma(lu, opts, *thorough)
		pd.Assume = append(pd.Assume, assume...)
		for _, o := range obs {
			rep := oblReport{Name: o.Name, Kind: o.Kind, Status: o.Status, Backend: o.Solver, TimeS: round3(o.TimeS), VCs: len(o.VCs), SmtSize: o.SmtSize}
			if len(o.VCs) > 0 {
				rep.Spec = o.VCs[0].note
			}
			if o.Status != "discharged" {
				rep.Detail = trunc(o.Detail, 600)
				failed = append(failed, o)
			}
			reports = append(reports, rep)
			backends[backendName(o)]++
			solverTime += o.TimeS
		}
	}
	for _, sn := range pd.Structural {
		obs := w.runStructural(sn)
		for _, o := range obs {
			rep := oblReport{Name: o.Name, Kind: o.Kind, Status: o.Status, Backend: o.Solver, Detail: trunc(o.Detail, 600)}
			if o.Status != "discharged" {
				failed = append(failed, o)
			}
			reports = append(reports, rep)
			backends[backendName(o)]++
		}
	}
	sort.Slice(reports, func(i, j int) bool { return reports[i].Name < reports[j].Name })
	if *list {
		for _, r := range reports {
			fmt.Printf("%-11s %-9s %-90s %s %.2fs\n", r.Status, r.Kind, r.Name, r.Backend, r.TimeS)
		}
	}

	// known findings
	findings := loadFindings()
	known := map[string]Finding{}
	for _, f := range findings {
		if f.Property == id && f.Status == "open" {
			known[f.Obligation] = f
		}
	}
	violations := 0
	discharged := 0
	var lines []string
	// Canaries (vacuity / cover) are satisfiability checks on the assumptions, not proof obligations of the property:
	// they are counted apart. A failed canary is still a violation; an inconclusive one (no solver found a model in
	// its 4 s budget) proves nothing either way and is reported as such.
	nObl := 0
	canaries := map[string]int{"total": 0, "decided": 0, "inconclusive": 0, "failed": 0}
	for i, r := range reports {
		if r.Kind == "vacuity" || r.Kind == "cover" {
			canaries["total"]++
			switch {
			case r.Status != "discharged":
				canaries["failed"]++
			case strings.Trim(r.Backend, "+") == "":
				canaries["inconclusive"]++
				reports[i].Backend = "inconclusive"
			default:
				canaries["decided"]++
			}
			continue
		}
		nObl++
		if r.Status == "discharged" {
			discharged++
		}
	}
	replayDir := filepath.Join(verifRoot(), "replays", id)
	for _, o := range failed {
		if f, ok := known[o.Name]; ok {
			lines = append(lines, fmt.Sprintf("KNOWN-FINDING: property=%s %s (%s)", id, f.What, o.Name))
			continue
		}
		violations++
		path := filepath.Join(replayDir, sanitizeFile(o.Name)+".json")
		suffix := ""
		rp := buildReplay(w, id, o, *repo)
		if os.Getenv("GOVC_DEBUG_REPLAY") != "" {
			fmt.Fprintf(os.Stderr, "replay %s: confirmed=%v inputs=%v notes=%v\n", o.Name, rp.Confirmed, rp.Inputs, rp.Notes)
		}
		if !rp.Confirmed {
			suffix = " no-failing-input-found"
		}
		if !*noEvidence {
			os.MkdirAll(replayDir, 0o755)
			b, _ := json.MarshalIndent(rp, "", " ")
			os.WriteFile(path, b, 0o644)
		}
		lines = append(lines, fmt.Sprintf("VIOLATION property=%s replay=%s obligation=%s%s", id, path, o.Name, suffix))
	}
	// samples: a few obligations written out
	for i, r := range reports {
		if i%max(1, len(reports)/6) == 0 && len(samples) < 8 {
			samples = append(samples, map[string]any{"obligation": r.Name, "kind": r.Kind, "spec": r.Spec, "backend": r.Backend, "status": r.Status, "smt_bytes": r.SmtSize})
		}
	}
	wall := time.Since(t0).Seconds()
	tier := "quick"
	if *thorough {
		tier = "thorough"
	}
	trusted := []string{"Go type checker and go/ssa (x/tools v0.29.0)", "govc symbolic executor and SMT encoding (/verif/govc)", "z3 4.8.12, z3 5.1.0 (z3-new), cvc5 1.0.x"}
	var assumptions []string
	for _, e := range sortedKeys(externs) {
		doc := w.externDoc[e]
		if doc == "" {
			doc = "treated as effect-free with unconstrained results (logging / formatting)"
		}
		assumptions = append(assumptions, "assumed contract: "+e+" — "+doc)
	}
	for _, r := range sortedKeys(regexes) {
		if ri := w.regexByNameAny(r); ri != nil {
			assumptions = append(assumptions, fmt.Sprintf("derived regex contract for %s from pattern literal %q", r, ri.pattern))
		}
	}
	assumptions = append(assumptions,
		"machine integers are mathematical integers with range facts assumed for inputs and asserted after + - * and narrowing conversions",
		"len() of strings and slices is assumed to be below 2^62",
		"strings are sequences of characters of the SMT string theory; byte/rune distinctions matter only for the regular-language lemmas",
		"termination is not proved; go.uber.org/zap calls are effect-free",
	)
	assumptions = append(assumptions, pd.Assume...)
	for _, k := range sortedKeys(assumedBodies) {
		assumptions = append(assumptions, "ASSUMED CONTRACT (body not verified against it): "+k+" — "+assumedBodies[k])
	}
	for _, e := range engineErrs {
		assumptions = append(assumptions, "ENGINE ERROR: "+e)
	}
	// thorough tier: sensitivity corpus — every stored property-breaking change (seeded changes and canaries of this
	// property) is applied to a scratch copy of the current tree and must make this very check fail there
	var sens map[string]any
	var sensMissed []string
	if *thorough && violations == 0 && !*noEvidence && os.Getenv("GOVC_NO_CORPUS") == "" {
		sens, sensMissed = sensitivityCorpus(id, *repo)
		wall = time.Since(t0).Seconds()
	}
	ev := map[string]any{
		"property_id": id, "tier": tier, "seed": seed, "level": pd.Level, "wall_s": round3(wall), "violations": violations,
		"assumptions": assumptions,
		"coverage": map[string]any{
			"obligations": nObl, "discharged": discharged, "canaries": canaries,
			"checker_cmd":                            "/verif/bin/govc check " + id,
			"trusted_base":                           trusted,
			"functions_under_contract":               sortedKeys(funcs),
			"callee_contracts_used":                  sortedKeys(contractsUsed),
			"dependency_units":                       sortedKeys(depUnits),
			"clause_filters_without_match":           sortedKeys(unmatched),
			"assumed_contracts_without_body":         assumedOnly(w, contractsUsed),
			"assumed_contracts_with_unverified_body": assumedBodies,
			"inlined_callees":                        sortedKeys(inlined),
			"backends":                               backends,
			"solver_time_s":                          round3(solverTime),
			"samples":                                samples,
			"explanation":                            pd.Explain,
			"obligation_list":                        reports,
			"known_findings":                         len(lines) - violations,
		},
	}
	if sens != nil {
		ev["coverage"].(map[string]any)["sensitivity_corpus"] = sens
	}
	if !*noEvidence {
		os.MkdirAll(filepath.Join(verifRoot(), "evidence"), 0o755)
		b, _ := json.MarshalIndent(ev, "", " ")
		os.WriteFile(filepath.Join(verifRoot(), "evidence", id+".json"), b, 0o644)
	}
	for _, l := range lines {
		fmt.Println(l)
	}
	for _, x := range sortedKeys(unmatched) {
		fmt.Fprintln(os.Stderr, "govc: note: clause filter selected nothing:", x)
	}
	fmt.Printf("%s %s: %d obligations, %d discharged, %d canaries (%d inconclusive), %d violations, %.1fs\n", id, tier, nObl, discharged, canaries["total"], canaries["inconclusive"], violations, wall)
	// os.Exit skips deferred calls: remove the work directory first
	exit := func(code int) {
		if os.Getenv("GOVC_KEEP") == "" {
			os.RemoveAll(work)
		}
		os.Exit(code)
	}
	if len(reports) == 0 {
		fmt.Println("govc: no obligations generated — refusing to report success")
		exit(2)
	}
	if len(engineErrs) > 0 {
		exit(2)
	}
	if len(sensMissed) > 0 {
		fmt.Printf("govc: self-test failed — stored property-breaking changes no longer detected: %s (the pass above is not trustworthy)\n", strings.Join(sensMissed, ", "))
		exit(2)
	}
	if violations > 0 {
		exit(1)
	}
}

func round3(f float64) float64 { return float64(int(f*1000+0.5)) / 1000 }

func (w *World) regexByNameAny(name string) *regexInfo {
	for _, ri := range w.regexGlobals {
		if ri.name == name {
			return ri
		}
	}
	return nil
}

// ---------------------------------------------------------------------------------------------

type Replay struct {
	Property   string   `json:"property"`
	Obligation string   `json:"obligation"`
	Kind       string   `json:"kind"`
	Spec       string   `json:"spec"`
	Status     string   `json:"status"`
	Solver     string   `json:"solver_output"`
	Model      string   `json:"model,omitempty"`
	Inputs     any      `json:"inputs,omitempty"`
	Confirmed  bool     `json:"confirmed_on_real_code"`
	ReplayLog  string   `json:"replay_log,omitempty"`
	ReplayCmd  string   `json:"replay_cmd,omitempty"`
	Notes      []string `json:"notes,omitempty"`
}

func max(a, b int) int {
	if a > b {
		return a
	}
	return b
}

// assumedOnly lists the contracts relied on that have no function body under verification in this run (interface methods,
// function types, function-valued fields): they are assumptions about whatever implementation is plugged in.
func assumedOnly(w *World, used map[string]bool) []string {
	var out []string
	for _, k := range sortedKeys(used) {
		if len(w.findFuncs(k)) == 0 {
			out = append(out, k)
		}
	}
	return out
}

// toggleRecv maps pkg.(*T).M to pkg.(T).M and back.
func toggleRecv(key string) string {
	if i := strings.Index(key, ".(*"); i >= 0 {
		return key[:i] + ".(" + key[i+3:]
	}
	if i := strings.Index(key, ".("); i >= 0 {
		return key[:i] + ".(*" + key[i+2:]
	}
	return key
}

func backendName(o *Obligation) string {
	b := strings.Trim(o.Solver, "+")
	if b == "" {
		if satCheck(o) {
			return "inconclusive-canary"
		}
		return "none"
	}
	return b
}

// sensitivityCorpus applies each stored change that breaks property id to a scratch copy of repo (outside /repo and
// /verif, removed afterwards) and runs this check on the copy. A change that no longer applies is skipped and listed.
func sensitivityCorpus(id, repo string) (map[string]any, []string) {
	type item struct{ name, patch string }
	var items []item
	ms, _ := filepath.Glob(filepath.Join(verifRoot(), "selftest", "mutants", id+"-*.patch"))
	for _, m := range ms {
		items = append(items, item{"canary/" + strings.TrimSuffix(filepath.Base(m), ".patch"), m})
	}
	ss, _ := filepath.Glob(filepath.Join(verifRoot(), "seeded", id+"-*", "patch.diff"))
	for _, m := range ss {
		items = append(items, item{"seeded/" + filepath.Base(filepath.Dir(m)), m})
	}
	sort.Slice(items, func(i, j int) bool { return items[i].name < items[j].name })
	var detected, skipped, missed []string
	var rows []map[string]any
	self, _ := os.Executable()
	for _, it := range items {
		tmp, err := os.MkdirTemp("", "govc-corpus-")
		if err != nil {
			skipped = append(skipped, it.name+": "+err.Error())
			continue
		}
		func() {
			defer os.RemoveAll(tmp)
			cp := exec.Command("rsync", "-a", "--exclude", ".git", strings.TrimSuffix(repo, "/")+"/", tmp+"/")
			if out, err := cp.CombinedOutput(); err != nil {
				skipped = append(skipped, it.name+": copy failed: "+trunc(string(out), 100))
				return
			}
			pa := exec.Command("patch", "-p1", "-s", "--no-backup-if-mismatch", "-d", tmp, "-i", it.patch)
			if out, err := pa.CombinedOutput(); err != nil {
				skipped = append(skipped, it.name+": patch does not apply to the current tree: "+trunc(string(out), 100))
				return
			}
			t1 := time.Now()
			c := exec.Command(self, "check", "--no-evidence", "--repo", tmp, id)
			c.Env = append(os.Environ(), "VERIF_TIER=quick", "GOFLAGS=-mod=mod", "GOPROXY=off", "GOSUMDB=off", "GOTOOLCHAIN=local")
			out, _ := c.CombinedOutput()
			rc := c.ProcessState.ExitCode()
			nv := strings.Count(string(out), "\nVIOLATION ") + map[bool]int{true: 1}[strings.HasPrefix(string(out), "VIOLATION ")]
			first := ""
			for _, l := range strings.Split(string(out), "\n") {
				if strings.HasPrefix(l, "VIOLATION ") {
					if i := strings.Index(l, "obligation="); i >= 0 {
						first = l[i+len("obligation="):]
					}
					break
				}
			}
			rows = append(rows, map[string]any{"change": it.name, "exit": rc, "violations": nv, "first_obligation": first, "wall_s": round3(time.Since(t1).Seconds())})
			switch {
			case rc == 1 && nv > 0:
				detected = append(detected, it.name)
			case rc == 0:
				missed = append(missed, it.name)
			default:
				skipped = append(skipped, fmt.Sprintf("%s: check ended with exit %d on the scratch copy", it.name, rc))
			}
		}()
	}
	return map[string]any{"changes": len(items), "detected": len(detected), "missed": missed, "skipped": skipped, "runs": rows,
		"note": "bounded self-test of the checker, not part of the proof: each stored property-breaking change, applied to a scratch copy of the current tree, must fail this check"}, missed
}
