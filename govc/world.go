package main

// World: the loaded program, contracts, assumed contracts registry.

import (
	"bufio"
	"fmt"
	"go/constant"
	"go/token"
	"go/types"
	"os"
	"path/filepath"
	"sort"
	"strings"

	"golang.org/x/tools/go/packages"
	"golang.org/x/tools/go/ssa"
	"golang.org/x/tools/go/ssa/ssautil"
)

var modulePath = "github.com/metal-toolbox/audito-maldito"

type clause struct {
	label string
	expr  *node
	src   string
}

type Contract struct {
	key               string
	pkg               string
	short             string
	requires          []clause
	ensures           []clause
	modifies          []*node
	loops             map[string][]clause
	asserts           map[string][]clause // assert_at <callee>#n
	inline            bool
	allocates         bool
	atomic            string
	blocks            string
	file              string
	line              int
	hasMod            bool
	ghostPre          []string
	ghostSet          []ghostAssign
	ghostExit         []ghostAssign
	allocGlobs        []string
	selects           []string // channels the function must receive from in a select
	blockExt          []string // external blocking calls the function is allowed to make (with their wake-up mechanism)
	blocksCancellable bool
	blocksNever       bool
	tokens            []string // local channel variables whose messages are token-tracked (all senders known)
	sendsOnce         []string // (closure contracts) channels the goroutine sends on exactly once
	assumed           string   // non-empty: the body is not verified against this contract (reason); reported as an assumption
}

func (c *Contract) allocatesRegion(r string) bool {
	if !c.allocates {
		return false
	}
	if len(c.allocGlobs) == 0 {
		return true
	}
	for _, g := range c.allocGlobs {
		if matchRegion(g, r) {
			return true
		}
	}
	return false
}

type ghostAssign struct {
	name string
	expr *node
}

func (c *Contract) loopInvs(key string) []clause {
	if c == nil {
		return nil
	}
	return c.loops[key]
}

type pred struct {
	params []string
	body   *node
}

type ufunc struct {
	args []string
	ret  string
}

type callCtx struct {
	site   string
	fn     *ssa.Function
	args   []Val
	k      func(*State, Val)
	method *types.Func
}

type externHandler func(ex *Exec, st *State, c *callCtx)

type World struct {
	prog          *ssa.Program
	pkgs          []*packages.Package
	contracts     map[string]*Contract
	preds         map[string]*pred
	ufuncs        map[string]ufunc
	ghostVars     map[string]string
	chanInvs      map[string]*node
	externs       map[string]externHandler
	externDoc     map[string]string
	ifaceExterns  map[string]externHandler
	regexGlobals  map[*ssa.Global]*regexInfo
	regexByName   map[string]*regexInfo
	errGlobals    map[*ssa.Global]int
	nonNilGlobals map[string]bool
	typeIDs       map[string]int
	typeIDList    []string
	guards        []guardDecl
	allFuncs      map[*ssa.Function]bool
	contractFiles []string
	loadErrs      []string
	lockOrder     []string
	lockInvs      []*lockInv
	chanElems     []types.Type
	guardedMaps   []*types.Map
	lockMemo      map[*ssa.Function]int
	staticTables  map[*ssa.Global]*staticTable
	snapTypes     map[string]map[string]bool   // package|variable name -> types it had in the snapshot
	ckeyAlias     map[string]string            // current contract key of a function -> the key its contract was written under
	renames       map[string]map[string]string // function -> (name in the contracts -> current name), pure renames only
	blockMemo     map[*ssa.Function]int
}

func loadWorld(repo string) (*World, error) {
	cfg := &packages.Config{Mode: packages.LoadAllSyntax, Dir: repo, BuildFlags: []string{"-tags=verif"}, Env: append(os.Environ(), "GOFLAGS=-mod=mod", "GOPROXY=off", "GOSUMDB=off", "GOTOOLCHAIN=local")}
	pkgs, err := packages.Load(cfg, "./...")
	if err != nil {
		return nil, err
	}
	w := &World{pkgs: pkgs, contracts: map[string]*Contract{}, preds: map[string]*pred{}, ufuncs: map[string]ufunc{}, ghostVars: map[string]string{},
		chanInvs: map[string]*node{}, externs: map[string]externHandler{}, externDoc: map[string]string{}, ifaceExterns: map[string]externHandler{},
		regexGlobals: map[*ssa.Global]*regexInfo{}, regexByName: map[string]*regexInfo{}, errGlobals: map[*ssa.Global]int{}, nonNilGlobals: map[string]bool{}, typeIDs: map[string]int{}}
	for _, p := range pkgs {
		for _, e := range p.Errors {
			w.loadErrs = append(w.loadErrs, e.Error())
		}
	}
	if len(w.loadErrs) > 0 {
		return w, fmt.Errorf("package load errors: %s", strings.Join(w.loadErrs, "; "))
	}
	prog, _ := ssautil.AllPackages(pkgs, ssa.NaiveForm|ssa.InstantiateGenerics)
	prog.Build()
	w.prog = prog
	w.allFuncs = ssautil.AllFunctions(prog)
	// AllFunctions follows references only: declared but (currently) uncalled unexported methods of module types are added
	// so that a contract keeps binding to its function when the last call site disappears.
	for _, sp := range prog.AllPackages() {
		if !strings.HasPrefix(sp.Pkg.Path(), modulePath) {
			continue
		}
		for _, m := range sp.Members {
			tn, ok := m.(*ssa.Type)
			if !ok {
				continue
			}
			named, ok := tn.Type().(*types.Named)
			if !ok || named.TypeParams().Len() > 0 {
				continue
			}
			for i := 0; i < named.NumMethods(); i++ {
				if fn := prog.FuncValue(named.Method(i)); fn != nil {
					w.allFuncs[fn] = true
				}
			}
		}
	}
	registerExterns(w)
	for _, f := range extraExterns {
		f(w)
	}
	w.scanGlobals()
	for _, p := range pkgs {
		if !strings.HasPrefix(p.PkgPath, modulePath) {
			continue
		}
		if len(p.GoFiles) == 0 {
			continue
		}
		dir := filepath.Dir(p.GoFiles[0])
		f := filepath.Join(dir, "zz_contracts_verif.go")
		if _, err := os.Stat(f); err == nil {
			if err := w.loadContracts(f, p.PkgPath); err != nil {
				return w, err
			}
			w.contractFiles = append(w.contractFiles, f)
		}
	}
	w.loadRenames()
	return w, nil
}

func (w *World) typeID(t types.Type) int {
	s := types.TypeString(t, nil)
	if id, ok := w.typeIDs[s]; ok {
		return id
	}
	id := len(w.typeIDs) + 1
	w.typeIDs[s] = id
	w.typeIDList = append(w.typeIDList, s)
	return id
}

func (w *World) typeByName(suffix string) types.Type {
	if strings.HasPrefix(suffix, "map[") {
		if i := strings.Index(suffix, "]"); i > 0 {
			k, v := w.typeByName(suffix[4:i]), w.typeByName(suffix[i+1:])
			if k != nil && v != nil {
				return types.NewMap(k, v)
			}
		}
		return nil
	}
	for _, b := range types.Typ {
		if b.Name() == suffix {
			return b
		}
	}
	ptr := strings.HasPrefix(suffix, "*")
	name := strings.TrimPrefix(suffix, "*")
	var found types.Type
	for _, sp := range w.prog.AllPackages() {
		for _, m := range sp.Members {
			if tn, ok := m.(*ssa.Type); ok {
				full := types.TypeString(tn.Type(), nil)
				if full == name || strings.HasSuffix(full, "/"+name) || (!strings.Contains(name, ".") && strings.HasSuffix(full, "."+name)) {
					found = tn.Type()
				}
			}
		}
	}
	if found != nil && ptr {
		return types.NewPointer(found)
	}
	return found
}

func (w *World) typeIDByName(suffix string) (int, bool) {
	t := w.typeByName(suffix)
	if t == nil {
		return 0, false
	}
	return w.typeID(t), true
}

func (w *World) namedType(pkg, name string) types.Type {
	for _, sp := range w.prog.AllPackages() {
		if sp.Pkg.Path() == pkg {
			if t := sp.Type(name); t != nil {
				return t.Type()
			}
		}
	}
	return nil
}

func (w *World) inlinable(fn *ssa.Function) bool {
	p := fnPkgPath(fn)
	if strings.HasPrefix(p, modulePath) {
		return true
	}
	switch p {
	case "github.com/metal-toolbox/auditevent":
		return true
	}
	return false
}

func (w *World) contractFor(fn *ssa.Function) *Contract {
	if ct := w.contracts[fnKey(fn)]; ct != nil || len(w.ckeyAlias) == 0 {
		return ct
	}
	return w.contracts[w.contractKeyOf(fn)]
}

// funcTypeContract: the `functype <Name>` contract of a named function type.
func (w *World) funcTypeContract(t types.Type) *Contract {
	if t == nil {
		return nil
	}
	n, ok := types.Unalias(t).(*types.Named)
	if !ok || n.Obj().Pkg() == nil {
		return nil
	}
	return w.contracts[n.Obj().Pkg().Path()+".functype:"+n.Obj().Name()]
}

func (w *World) chanInv(et types.Type) *node {
	return w.chanInvs[typeName(et)]
}

func (w *World) externFor(fn *ssa.Function, full string) externHandler {
	if h, ok := w.externs[full]; ok {
		return h
	}
	p := fnPkgPath(fn)
	switch {
	case strings.HasPrefix(p, "go.uber.org/zap"):
		return externPure
	case p == "github.com/go-logr/zapr" || p == "github.com/go-logr/logr":
		return externPure
	}
	if !strings.HasPrefix(p, modulePath) && fn.Signature.Recv() != nil && (fn.Name() == "String" || fn.Name() == "Error") {
		return externPure
	}
	// Side-effect-free standard library functions without a specific model: the result is an unconstrained value of
	// the result type (sound over-approximation; anything a contract needs to know about the result is then
	// unprovable and fails as a named obligation, instead of the whole function leaving the verified subset).
	if pureStdlib(fn) {
		return externPure
	}
	return nil
}

var purePkgs = map[string]bool{"strings": true, "strconv": true, "unicode": true, "unicode/utf8": true, "path": true,
	"path/filepath": true, "math": true, "math/bits": true, "html": true, "net/url": true, "slices": true, "maps": true, "cmp": true}

// pureStdlib: package-level functions of packages that neither touch shared state nor do I/O, and value-receiver
// methods of plain value types (time.Time, time.Duration, net.IP, netip.Addr).
func pureStdlib(fn *ssa.Function) bool {
	p := fnPkgPath(fn)
	recv := fn.Signature.Recv()
	if recv == nil {
		if purePkgs[p] {
			// functions taking or returning functions/pointers to mutable state are not covered
			for i := 0; i < fn.Signature.Params().Len(); i++ {
				switch fn.Signature.Params().At(i).Type().Underlying().(type) {
				case *types.Signature, *types.Pointer, *types.Map, *types.Chan, *types.Interface:
					return false
				}
			}
			for i := 0; i < fn.Signature.Results().Len(); i++ {
				switch fn.Signature.Results().At(i).Type().Underlying().(type) {
				case *types.Pointer, *types.Map, *types.Chan, *types.Signature:
					return false
				}
			}
			return true
		}
		switch fn.String() {
		case "net.ParseIP", "net.JoinHostPort", "net/netip.ParseAddr", "fmt.Sprint", "fmt.Sprintln", "time.Since", "time.Until", "time.Unix", "time.UnixMilli", "time.Duration.String":
			return true
		}
		return false
	}
	if _, isPtr := recv.Type().(*types.Pointer); isPtr {
		return false
	}
	n, ok := types.Unalias(recv.Type()).(*types.Named)
	if !ok || n.Obj().Pkg() == nil {
		return false
	}
	switch n.Obj().Pkg().Path() + "." + n.Obj().Name() {
	case "time.Time", "time.Duration", "time.Month", "time.Weekday", "net.IP", "net.IPMask", "net/netip.Addr", "net/netip.AddrPort":
		return true
	}
	return false
}

// uniqueImpl finds the single non-test implementation of an interface method in the module.
func (w *World) uniqueImpl(it types.Type, m *types.Func) *ssa.Function {
	iface, ok := it.Underlying().(*types.Interface)
	if !ok {
		return nil
	}
	var found []*ssa.Function
	for _, sp := range w.prog.AllPackages() {
		if !strings.HasPrefix(sp.Pkg.Path(), modulePath) || strings.Contains(sp.Pkg.Path(), "/fakes") || strings.Contains(sp.Pkg.Path(), "testtools") {
			continue
		}
		for _, mem := range sp.Members {
			tn, ok := mem.(*ssa.Type)
			if !ok {
				continue
			}
			for _, t := range []types.Type{tn.Type(), types.NewPointer(tn.Type())} {
				if _, isI := t.Underlying().(*types.Interface); isI {
					continue
				}
				if types.Implements(t, iface) {
					sel := w.prog.MethodSets.MethodSet(t).Lookup(m.Pkg(), m.Name())
					if sel != nil {
						if f := w.prog.MethodValue(sel); f != nil {
							found = append(found, f)
						}
					}
					break
				}
			}
		}
	}
	if len(found) == 1 {
		return found[0]
	}
	return nil
}

// scanGlobals finds package-level regexps and sentinel errors from package initialisers.
func (w *World) scanGlobals() {
	nextErr := 900000001
	for _, sp := range w.prog.AllPackages() {
		if !strings.HasPrefix(sp.Pkg.Path(), modulePath) && sp.Pkg.Path() != "io" && sp.Pkg.Path() != "bufio" {
			continue
		}
		init := sp.Func("init")
		if init == nil {
			continue
		}
		for _, b := range init.Blocks {
			for _, in := range b.Instrs {
				call, ok := in.(*ssa.Call)
				if !ok {
					continue
				}
				callee := call.Common().StaticCallee()
				if callee == nil {
					continue
				}
				var g *ssa.Global
				if refs := call.Referrers(); refs != nil {
					for _, r := range *refs {
						if s, ok := r.(*ssa.Store); ok {
							if gg, ok := s.Addr.(*ssa.Global); ok {
								g = gg
							}
						}
					}
				}
				if g == nil {
					continue
				}
				switch callee.String() {
				case "regexp.MustCompile":
					if c, ok := call.Common().Args[0].(*ssa.Const); ok && c.Value != nil && c.Value.Kind() == constant.String {
						info := newRegexInfo(g.Name(), constant.StringVal(c.Value), len(w.regexGlobals)+800000001)
						info.pkg = sp.Pkg.Path()
						w.regexGlobals[g] = info
						w.regexByName[sp.Pkg.Name()+"."+g.Name()] = info
					}
				case "errors.New":
					w.errGlobals[g] = nextErr
					nextErr++
				}
			}
		}
	}
}

// ---------------------------------------------------------------------------------------------
// Contract files

func (w *World) loadContracts(file, pkgPath string) error {
	f, err := os.Open(file)
	if err != nil {
		return err
	}
	defer f.Close()
	sc := bufio.NewScanner(f)
	sc.Buffer(make([]byte, 1<<20), 1<<20)
	var cur *Contract
	type pending struct {
		kind, label, extra string
		text               string
		line               int
	}
	var pend *pending
	lineNo := 0
	flush := func() error {
		if pend == nil {
			return nil
		}
		p := pend
		pend = nil
		mk := func() (clause, error) {
			n, err := parseSpec(p.text)
			if err != nil {
				return clause{}, fmt.Errorf("%s:%d: %v", file, p.line, err)
			}
			lb := p.label
			return clause{label: lb, expr: n, src: strings.TrimSpace(p.text)}, nil
		}
		switch p.kind {
		case "requires", "ensures":
			if cur == nil {
				return fmt.Errorf("%s:%d: clause outside func", file, p.line)
			}
			c, err := mk()
			if err != nil {
				return err
			}
			if p.kind == "requires" {
				if c.label == "" {
					c.label = fmt.Sprintf("r%d", len(cur.requires)+1)
				}
				cur.requires = append(cur.requires, c)
			} else {
				if c.label == "" {
					c.label = fmt.Sprintf("e%d", len(cur.ensures)+1)
				}
				cur.ensures = append(cur.ensures, c)
			}
		case "loop":
			c, err := mk()
			if err != nil {
				return err
			}
			if c.label == "" {
				c.label = fmt.Sprintf("i%d", len(cur.loops[p.extra])+1)
			}
			cur.loops[p.extra] = append(cur.loops[p.extra], c)
		case "assert_at":
			c, err := mk()
			if err != nil {
				return err
			}
			if c.label == "" {
				c.label = fmt.Sprintf("a%d", len(cur.asserts[p.extra])+1)
			}
			cur.asserts[p.extra] = append(cur.asserts[p.extra], c)
		case "modifies":
			cur.hasMod = true
			for _, item := range splitTopComma(p.text) {
				item = strings.TrimSpace(item)
				if item == "" || item == "nothing" {
					continue
				}
				n, err := parseSpec(item)
				if err != nil {
					return fmt.Errorf("%s:%d: %v", file, p.line, err)
				}
				n.src = item
				cur.modifies = append(cur.modifies, n)
			}
		case "ghostset", "ghostexit":
			n, err := parseSpec(p.text)
			if err != nil {
				return fmt.Errorf("%s:%d: %v", file, p.line, err)
			}
			if p.kind == "ghostset" {
				cur.ghostSet = append(cur.ghostSet, ghostAssign{name: p.extra, expr: n})
			} else {
				cur.ghostExit = append(cur.ghostExit, ghostAssign{name: p.extra, expr: n})
			}
		case "pred":
			// Name(a, b) := body
			i := strings.Index(p.text, ":=")
			if i < 0 {
				return fmt.Errorf("%s:%d: pred needs :=", file, p.line)
			}
			head := strings.TrimSpace(p.text[:i])
			lp := strings.Index(head, "(")
			name := strings.TrimSpace(head[:lp])
			var params []string
			for _, x := range strings.Split(strings.TrimSuffix(head[lp+1:], ")"), ",") {
				x = strings.TrimSpace(x)
				if x != "" {
					params = append(params, strings.Fields(x)[0])
				}
			}
			body, err := parseSpec(p.text[i+2:])
			if err != nil {
				return fmt.Errorf("%s:%d: %v", file, p.line, err)
			}
			w.preds[name] = &pred{params: params, body: body}
		case "chaninv":
			i := strings.Index(p.text, ":")
			body, err := parseSpec(p.text[i+1:])
			if err != nil {
				return fmt.Errorf("%s:%d: %v", file, p.line, err)
			}
			w.chanInvs[strings.TrimSpace(p.text[:i])] = body
		}
		return nil
	}
	for sc.Scan() {
		lineNo++
		line := strings.TrimSpace(sc.Text())
		if !strings.HasPrefix(line, "//@") {
			continue
		}
		body := strings.TrimSpace(line[3:])
		if body == "" {
			continue
		}
		if strings.HasPrefix(body, "|") {
			if pend != nil {
				pend.text += " " + strings.TrimSpace(body[1:])
			}
			continue
		}
		if err := flush(); err != nil {
			return err
		}
		kw, rest := body, ""
		if i := strings.IndexAny(body, " \t"); i >= 0 {
			kw, rest = body[:i], strings.TrimSpace(body[i+1:])
		}
		label := ""
		if i := strings.Index(kw, "["); i >= 0 && strings.HasSuffix(kw, "]") {
			label = kw[i+1 : len(kw)-1]
			kw = kw[:i]
		}
		switch kw {
		case "func":
			cur = &Contract{pkg: pkgPath, short: rest, key: pkgPath + "." + rest, loops: map[string][]clause{}, asserts: map[string][]clause{}, file: file, line: lineNo}
			if _, dup := w.contracts[cur.key]; dup {
				return fmt.Errorf("%s:%d: duplicate contract for %s", file, lineNo, rest)
			}
			w.contracts[cur.key] = cur
		case "ifacemethod", "fieldfunc":
			k := map[string]string{"ifacemethod": "iface:", "fieldfunc": "fieldfunc:"}[kw]
			cur = &Contract{pkg: pkgPath, short: k + rest, key: pkgPath + "." + k + rest, loops: map[string][]clause{}, asserts: map[string][]clause{}, file: file, line: lineNo}
			w.contracts[cur.key] = cur
		case "functype":
			cur = &Contract{pkg: pkgPath, short: "functype:" + rest, key: pkgPath + ".functype:" + rest, loops: map[string][]clause{}, asserts: map[string][]clause{}, file: file, line: lineNo}
			w.contracts[cur.key] = cur
		case "requires", "ensures", "modifies", "pred", "chaninv":
			pend = &pending{kind: kw, label: label, text: rest, line: lineNo}
		case "loop":
			// loop <key> invariant[label] expr
			fs := strings.SplitN(rest, " ", 3)
			if len(fs) < 3 || !strings.HasPrefix(fs[1], "invariant") {
				return fmt.Errorf("%s:%d: bad loop clause", file, lineNo)
			}
			lb := ""
			if i := strings.Index(fs[1], "["); i >= 0 {
				lb = strings.TrimSuffix(fs[1][i+1:], "]")
			}
			pend = &pending{kind: "loop", label: lb, extra: fs[0], text: fs[2], line: lineNo}
		case "assert_at":
			fs := strings.SplitN(rest, " ", 2)
			if len(fs) < 2 {
				return fmt.Errorf("%s:%d: bad assert_at clause", file, lineNo)
			}
			key := fs[0]
			if i := strings.Index(key, "["); i >= 0 && strings.HasSuffix(key, "]") {
				label = key[i+1 : len(key)-1]
				key = key[:i]
			}
			pend = &pending{kind: "assert_at", label: label, extra: key, text: fs[1], line: lineNo}
		case "inline":
			cur.inline = true
		case "allocates":
			cur.allocates = true
			for _, g := range splitTopComma(rest) {
				if g = strings.Trim(strings.TrimSpace(g), `"`); g != "" {
					cur.allocGlobs = append(cur.allocGlobs, g)
				}
			}
		case "atomic":
			cur.atomic = rest
		case "assumed":
			cur.assumed = rest
			if cur.assumed == "" {
				cur.assumed = "no reason given"
			}
		case "blocks":
			// blocks cancellable [external <callee>: <wake-up mechanism>; ...]
			cur.blocks = rest
			cur.blocksCancellable = strings.HasPrefix(rest, "cancellable")
			cur.blocksNever = strings.HasPrefix(rest, "never")
			if i := strings.Index(rest, "external"); i >= 0 {
				for _, e := range strings.Split(rest[i+len("external"):], ";") {
					if e = strings.TrimSpace(e); e != "" {
						cur.blockExt = append(cur.blockExt, e)
					}
				}
			}
		case "tokens":
			// tokens <local channel variable>[, ...]: every producer of messages on the channel is known to the verifier
			for _, x := range strings.Split(rest, ",") {
				if x = strings.TrimSpace(x); x != "" {
					cur.tokens = append(cur.tokens, x)
				}
			}
		case "sends":
			// sends <channel variable> once: the (goroutine) function sends exactly one message on the channel
			fs := strings.Fields(rest)
			if len(fs) != 2 || fs[1] != "once" {
				return fmt.Errorf("%s:%d: bad sends clause (want: sends <chan> once)", file, lineNo)
			}
			cur.sendsOnce = append(cur.sendsOnce, fs[0])
			if err := flush(); err != nil {
				return err
			}
			pend = &pending{kind: "ensures", label: "sends-once-" + fs[0], text: "sentlen(" + fs[0] + ") == old(sentlen(" + fs[0] + ")) + 1", line: lineNo}
		case "selects":
			for _, x := range strings.Split(rest, ",") {
				if x = strings.TrimSpace(x); x != "" {
					cur.selects = append(cur.selects, x)
				}
			}
		case "ghost_exit":
			// ghost_exit g_name := expr      (executed at every exit of the function, before the postconditions; may mention result)
			j := strings.Index(rest, ":=")
			if j < 0 || cur == nil {
				return fmt.Errorf("%s:%d: bad ghost_exit", file, lineNo)
			}
			pend = &pending{kind: "ghostexit", extra: strings.TrimSpace(rest[:j]), text: rest[j+2:], line: lineNo}
		case "ghost":
			// ghost g_name : sort            (declaration)
			// ghost g_name := expr           (inside a func block: executed at entry of the function)
			if j := strings.Index(rest, ":="); j >= 0 {
				if cur == nil {
					return fmt.Errorf("%s:%d: ghost assignment outside func", file, lineNo)
				}
				pend = &pending{kind: "ghostset", extra: strings.TrimSpace(rest[:j]), text: rest[j+2:], line: lineNo}
				break
			}
			i := strings.Index(rest, ":")
			w.ghostVars[strings.TrimSpace(rest[:i])] = strings.TrimSpace(rest[i+1:])
		case "ufunc":
			// ufunc name(Sort, Sort) Sort
			lp, rp := strings.Index(rest, "("), strings.LastIndex(rest, ")")
			var as []string
			for _, a := range splitTopComma(rest[lp+1 : rp]) {
				if a = strings.TrimSpace(a); a != "" {
					as = append(as, a)
				}
			}
			w.ufuncs[strings.TrimSpace(rest[:lp])] = ufunc{args: as, ret: strings.TrimSpace(rest[rp+1:])}
		case "nonnil":
			w.nonNilGlobals[pkgPath+"."+rest] = true
		case "guard":
			g, err := parseGuard(rest, pkgPath)
			if err != nil {
				return fmt.Errorf("%s:%d: %v", file, lineNo, err)
			}
			w.guards = append(w.guards, g)
		case "end":
			cur = nil
		default:
			return fmt.Errorf("%s:%d: unknown contract keyword %q", file, lineNo, kw)
		}
	}
	return flush()
}

func splitTopComma(s string) []string {
	var out []string
	d := 0
	start := 0
	inStr := false
	for i := 0; i < len(s); i++ {
		c := s[i]
		if inStr {
			if c == '"' {
				inStr = false
			}
			continue
		}
		switch c {
		case '"':
			inStr = true
		case '(', '[':
			d++
		case ')', ']':
			d--
		case ',':
			if d == 0 {
				out = append(out, s[start:i])
				start = i + 1
			}
		}
	}
	out = append(out, s[start:])
	return out
}

// findFunc resolves "pkgpath.short" to the ssa function (first instantiation for generics).
func (w *World) findFunc(key string) *ssa.Function {
	var cands []*ssa.Function
	for fn := range w.allFuncs {
		if fn.Synthetic != "" && !strings.Contains(fn.Synthetic, "instance") {
			continue
		}
		if fnKey(fn) == key {
			cands = append(cands, fn)
		}
	}
	if len(cands) == 0 {
		return nil
	}
	sort.Slice(cands, func(i, j int) bool { return cands[i].String() < cands[j].String() })
	// prefer instantiated bodies over generic origins
	for _, c := range cands {
		if c.Blocks != nil && len(c.TypeArgs()) > 0 {
			return c
		}
	}
	for _, c := range cands {
		if c.Blocks != nil && c.TypeParams().Len() == 0 {
			return c
		}
	}
	return cands[0]
}

// findFuncs returns every body matching key (all instantiations).
func (w *World) findFuncs(key string) []*ssa.Function {
	var cands []*ssa.Function
	for fn := range w.allFuncs {
		if fnKey(fn) == key && fn.Blocks != nil {
			if fn.TypeParams().Len() > 0 && len(fn.TypeArgs()) == 0 {
				continue // uninstantiated generic
			}
			if strings.Contains(fn.Synthetic, "wrapper") || strings.Contains(fn.Synthetic, "bound") || strings.Contains(fn.Synthetic, "thunk") {
				continue
			}
			cands = append(cands, fn)
		}
	}
	if len(cands) == 0 && len(w.ckeyAlias) > 0 {
		// the function was renamed since the contracts were written
		for fn := range w.allFuncs {
			if fn.Blocks != nil && w.contractKeyOf(fn) == key && fnKey(fn) != key {
				cands = append(cands, fn)
			}
		}
	}
	sort.Slice(cands, func(i, j int) bool { return cands[i].String() < cands[j].String() })
	return cands
}

// chanElemTypes: element types of the channels used by the module (for the ghost send traces).
func (w *World) chanElemTypes() []types.Type {
	if w.chanElems != nil {
		return w.chanElems
	}
	seen := map[string]bool{}
	add := func(t types.Type) {
		c, ok := t.Underlying().(*types.Chan)
		if !ok {
			return
		}
		et := c.Elem()
		if s, ok := et.Underlying().(*types.Struct); ok && (s.NumFields() == 0 || opaqueStruct(et)) && scalarSort(et) == "" {
			return
		}
		defer func() { recover() }()
		_ = leaves(et)
		k := typeName(et)
		if !seen[k] {
			seen[k] = true
			w.chanElems = append(w.chanElems, et)
		}
	}
	for fn := range w.allFuncs {
		if !strings.HasPrefix(fnPkgPath(fn), modulePath) {
			continue
		}
		for _, p := range fn.Params {
			add(p.Type())
		}
		for _, b := range fn.Blocks {
			for _, in := range b.Instrs {
				if v, ok := in.(ssa.Value); ok {
					add(v.Type())
				}
			}
		}
	}
	sort.Slice(w.chanElems, func(i, j int) bool { return typeName(w.chanElems[i]) < typeName(w.chanElems[j]) })
	return w.chanElems
}

// guardedMapTypes: the map types of all guarded map fields (every instantiation of the guarded struct).
func (w *World) guardedMapTypes() []*types.Map {
	if w.guardedMaps != nil {
		return w.guardedMaps
	}
	seen := map[string]bool{}
	for fn := range w.allFuncs {
		recv := fn.Signature.Recv()
		if recv == nil {
			continue
		}
		rt := derefType(recv.Type())
		for _, g := range w.guards {
			if typeBaseName(rt) != g.typ {
				continue
			}
			s, ok := rt.Underlying().(*types.Struct)
			if !ok {
				continue
			}
			for i := 0; i < s.NumFields(); i++ {
				if s.Field(i).Name() == g.field {
					if mt, ok := s.Field(i).Type().Underlying().(*types.Map); ok {
						if _, isTP := mt.Key().(*types.TypeParam); isTP {
							continue
						}
						if _, isTP := mt.Elem().(*types.TypeParam); isTP {
							continue
						}
						k := typeName(mt)
						if !seen[k] {
							seen[k] = true
							w.guardedMaps = append(w.guardedMaps, mt)
						}
					}
				}
			}
		}
	}
	sort.Slice(w.guardedMaps, func(i, j int) bool { return typeName(w.guardedMaps[i]) < typeName(w.guardedMaps[j]) })
	if w.guardedMaps == nil {
		w.guardedMaps = []*types.Map{}
	}
	return w.guardedMaps
}

// mayBlock: can fn (transitively through static calls inside the module) execute a potentially blocking
// channel operation or one of the known blocking external calls?
func (w *World) mayBlock(fn *ssa.Function) bool {
	if w.blockMemo == nil {
		w.blockMemo = map[*ssa.Function]int{}
	}
	switch w.blockMemo[fn] {
	case 1:
		return false
	case 2:
		return true
	case 3:
		return false // recursion: assume no
	}
	w.blockMemo[fn] = 3
	res := false
	for _, b := range fn.Blocks {
		for _, in := range b.Instrs {
			switch x := in.(type) {
			case *ssa.Send:
				res = true
			case *ssa.Select:
				if x.Blocking {
					res = true
				}
			case *ssa.UnOp:
				if x.Op == token.ARROW {
					res = true
				}
			case *ssa.Call:
				if sc := x.Common().StaticCallee(); sc == nil && !x.Common().IsInvoke() {
					if _, isBuiltin := x.Common().Value.(*ssa.Builtin); !isBuiltin {
						res = true // call through a function value: the callee is unknown here
					}
				} else if sc != nil {
					switch sc.String() {
					case "os.OpenFile", "(*bufio.Reader).ReadString", "(*sync.WaitGroup).Wait", "time.Sleep":
						res = true
					default:
						if strings.HasPrefix(fnPkgPath(sc), modulePath) && sc.Blocks != nil && w.mayBlock(sc) {
							res = true
						}
					}
				}
			}
		}
	}
	for _, anon := range fn.AnonFuncs {
		_ = anon
	}
	if res {
		w.blockMemo[fn] = 2
	} else {
		w.blockMemo[fn] = 1
	}
	return res
}

// mayLock: fn (transitively, through static calls into functions with bodies) acquires a sync mutex.
func (w *World) mayLock(fn *ssa.Function) bool {
	if w.lockMemo == nil {
		w.lockMemo = map[*ssa.Function]int{}
	}
	switch w.lockMemo[fn] {
	case 1:
		return false
	case 2:
		return true
	case 3:
		return false
	}
	w.lockMemo[fn] = 3
	res := false
	for _, b := range fn.Blocks {
		for _, in := range b.Instrs {
			var cc *ssa.CallCommon
			switch x := in.(type) {
			case *ssa.Call:
				cc = x.Common()
			case *ssa.Defer:
				cc = x.Common()
			case *ssa.Go:
				cc = x.Common()
			case *ssa.MakeClosure:
				if cf, ok := x.Fn.(*ssa.Function); ok && w.mayLock(cf) {
					res = true
				}
			}
			if cc == nil {
				continue
			}
			sc := cc.StaticCallee()
			if sc == nil {
				continue
			}
			switch sc.String() {
			case "(*sync.Mutex).Lock", "(*sync.Mutex).TryLock", "(*sync.RWMutex).Lock", "(*sync.RWMutex).RLock", "(*sync.RWMutex).TryLock":
				res = true
			default:
				if sc.Blocks != nil && strings.HasPrefix(fnPkgPath(sc), modulePath) && w.mayLock(sc) {
					res = true
				}
			}
		}
	}
	if res {
		w.lockMemo[fn] = 2
	} else {
		w.lockMemo[fn] = 1
	}
	return res
}
