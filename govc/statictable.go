package main

// Static tables: a package-level slice of structs that is assigned exactly once, in the package initialiser, from a
// composite literal whose element fields are constants, functions or other package-level variables. Such a table is
// read out of the SSA of init and presented to the executor as a fixed-length array of struct values, so that a loop
// over it can be unrolled (no invariant needed) — the table-driven form of a switch.

import (
	"go/types"
	"strings"

	"golang.org/x/tools/go/ssa"
)

type staticTable struct {
	elem   *types.Struct
	elemT  types.Type
	fields [][]ssa.Value // per element, per field: *ssa.Global (loaded), *ssa.Function, *ssa.Const
}

func (w *World) staticTableOf(g *ssa.Global) *staticTable {
	if w.staticTables == nil {
		w.staticTables = map[*ssa.Global]*staticTable{}
	}
	if t, ok := w.staticTables[g]; ok {
		return t
	}
	w.staticTables[g] = nil
	st, ok := g.Type().Underlying().(*types.Pointer).Elem().Underlying().(*types.Slice)
	if !ok {
		return nil
	}
	es, ok := st.Elem().Underlying().(*types.Struct)
	if !ok || g.Pkg == nil || !strings.HasPrefix(g.Pkg.Pkg.Path(), modulePath) {
		return nil
	}
	// exactly one store to g in the whole module, in init, of `slice arr[:]`
	var initStore *ssa.Store
	for fn := range w.allFuncs {
		if !strings.HasPrefix(fnPkgPath(fn), modulePath) {
			continue
		}
		for _, b := range fn.Blocks {
			for _, in := range b.Instrs {
				switch x := in.(type) {
				case *ssa.Store:
					if x.Addr == g {
						if fn.Name() != "init" || initStore != nil {
							return nil
						}
						initStore = x
					}
				case *ssa.UnOp:
					// the table's address must not escape either (&table passed somewhere)
				}
			}
		}
	}
	// also no use of the global's address other than loads and that store
	if refs := g.Referrers(); refs != nil {
		_ = refs
	}
	if initStore == nil {
		if init := g.Pkg.Func("init"); init != nil {
			for _, b := range init.Blocks {
				for _, in := range b.Instrs {
					if x, ok := in.(*ssa.Store); ok && x.Addr == g {
						if initStore != nil {
							return nil
						}
						initStore = x
					}
				}
			}
		}
	}
	if initStore == nil {
		return nil
	}
	sl, ok := initStore.Val.(*ssa.Slice)
	if !ok || sl.Low != nil || sl.High != nil {
		return nil
	}
	arr, ok := sl.X.(*ssa.Alloc)
	if !ok {
		return nil
	}
	at, ok := arr.Type().Underlying().(*types.Pointer).Elem().Underlying().(*types.Array)
	if !ok || at.Len() > 64 {
		return nil
	}
	tab := &staticTable{elem: es, elemT: st.Elem(), fields: make([][]ssa.Value, at.Len())}
	for i := range tab.fields {
		tab.fields[i] = make([]ssa.Value, es.NumFields())
	}
	for _, r := range *arr.Referrers() {
		ia, ok := r.(*ssa.IndexAddr)
		if !ok {
			if r == sl {
				continue
			}
			if _, ok := r.(*ssa.DebugRef); ok {
				continue
			}
			return nil
		}
		k, ok := ia.Index.(*ssa.Const)
		if !ok {
			return nil
		}
		idx := int(k.Int64())
		for _, r2 := range *ia.Referrers() {
			fa, ok := r2.(*ssa.FieldAddr)
			if !ok {
				return nil
			}
			for _, r3 := range *fa.Referrers() {
				sto, ok := r3.(*ssa.Store)
				if !ok || sto.Addr != fa {
					return nil
				}
				v := sto.Val
				if ct, ok := v.(*ssa.ChangeType); ok {
					v = ct.X
				}
				switch y := v.(type) {
				case *ssa.UnOp:
					gl, ok := y.X.(*ssa.Global)
					if !ok {
						return nil
					}
					tab.fields[idx][fa.Field] = gl
				case *ssa.Function, *ssa.Const:
					tab.fields[idx][fa.Field] = y
				default:
					return nil
				}
			}
		}
	}
	w.staticTables[g] = tab
	return tab
}

// staticTableVal: the table as an executor value (an array of struct values); fields never assigned are zero.
func (ex *Exec) staticTableVal(st *State, g *ssa.Global, tab *staticTable) Val {
	et := g.Type().Underlying().(*types.Pointer).Elem()
	out := Val{K: KArray, Typ: et, Meta: "static-table"}
	for _, fs := range tab.fields {
		ev := Val{K: KStruct, Typ: tab.elemT}
		for j, f := range fs {
			ft := tab.elem.Field(j).Type()
			switch y := f.(type) {
			case nil:
				ev.Fs = append(ev.Fs, zeroVal(ft))
			case *ssa.Global:
				ev.Fs = append(ev.Fs, ex.loadGlobal(st, y, nil))
			case *ssa.Function:
				ev.Fs = append(ev.Fs, Val{K: KFunc, Fn: y, Typ: ft})
			case *ssa.Const:
				if t, ok := constTerm(y); ok {
					ev.Fs = append(ev.Fs, term(t, ft))
				} else {
					ev.Fs = append(ev.Fs, zeroVal(ft))
				}
			}
		}
		out.Fs = append(out.Fs, ev)
	}
	return out
}
