package main

// Symbolic state: path condition, heap regions, cells, frames.

import (
	"fmt"
	"go/types"
	"strings"

	"golang.org/x/tools/go/ssa"
)

type Frame struct {
	fn      *ssa.Function
	vals    map[ssa.Value]Val
	binds   []Val // free variables
	defers  []deferred
	prev    *ssa.BasicBlock
	active  map[int]bool // loop headers (block index) whose body is being executed
	unroll  map[int]int  // loop headers without invariants being unrolled: arrivals so far
	id      int
	depth   int
	retCont func(st *State, res Val) // continuation on return
	isRoot  bool
}

type deferred struct {
	call *ssa.CallCommon
	fn   Val
	args []Val
	site string
}

type State struct {
	ex     *Exec
	pc     []string
	heap   map[string]string // region -> current term
	cells  map[int]Val
	frames []*Frame
	locks  []string // held lock identities (terms)
	// bookkeeping for loop write-set collection
	written      map[string]bool
	writtenOld   map[string]bool // (dry runs) regions written at an object that existed before the dry run started
	freshRef     string          // (dry runs) the object reference the next setRegion writes to, if known
	writtenCells map[int]bool
	dry          bool
	dead         bool
	trace        []string
	shared       map[int]bool // cells shared with spawned goroutines (havocked at synchronisation)
	iters        []*iterInfo
	preHeap      map[string]string // heap at the most recent loop cut
	facts        []strFact         // string decomposition facts valid on this path
	known        map[string]string // known slice elements: region|id|index -> term
	strictHavoc  bool              // rehavoc must not keep a value it cannot replace (loop cuts)
	quantDepth   int               // >0 while evaluating under a quantifier (no path assumptions may be added)
	atomicAcq    int               // acquisitions of the operation's own mutex on this path
	published    map[string]bool   // freshly allocated objects that have been stored into shared structures
	pending      []pendingGo       // spawned goroutines not yet joined
}

func (st *State) clone() *State {
	n := &State{ex: st.ex, dry: st.dry}
	n.pc = append([]string(nil), st.pc...)
	n.heap = make(map[string]string, len(st.heap))
	for k, v := range st.heap {
		n.heap[k] = v
	}
	n.cells = make(map[int]Val, len(st.cells))
	for k, v := range st.cells {
		n.cells[k] = v
	}
	n.frames = make([]*Frame, len(st.frames))
	for i, f := range st.frames {
		nf := *f
		nf.vals = make(map[ssa.Value]Val, len(f.vals))
		for k, v := range f.vals {
			nf.vals[k] = v
		}
		nf.defers = append([]deferred(nil), f.defers...)
		nf.active = make(map[int]bool, len(f.active))
		for k, v := range f.active {
			nf.active[k] = v
		}
		n.frames[i] = &nf
	}
	n.locks = append([]string(nil), st.locks...)
	n.iters = st.iters
	n.preHeap = st.preHeap
	n.facts = st.facts
	n.pending = append([]pendingGo(nil), st.pending...)
	n.atomicAcq = st.atomicAcq
	if st.published != nil {
		n.published = make(map[string]bool)
		for k, v := range st.published {
			n.published[k] = v
		}
	}
	if st.known != nil {
		n.known = make(map[string]string, len(st.known))
		for k, v := range st.known {
			n.known[k] = v
		}
	}
	n.written = st.written
	n.writtenOld = st.writtenOld
	n.writtenCells = st.writtenCells
	n.trace = append([]string(nil), st.trace...)
	if st.shared != nil {
		n.shared = make(map[int]bool)
		for k, v := range st.shared {
			n.shared[k] = v
		}
	}
	return n
}

func (st *State) top() *Frame { return st.frames[len(st.frames)-1] }

func (st *State) assume(t string) {
	if t == "true" || t == "" {
		return
	}
	st.pc = append(st.pc, t)
}

// ---------------------------------------------------------------------------------------------
// Declarations (global to one verification run of a function)

func (ex *Exec) declare(name, sort string) string {
	if old, ok := ex.decls[name]; ok {
		if old != sort {
			panic(fmt.Sprintf("redeclared %s: %s vs %s", name, old, sort))
		}
		return name
	}
	ex.decls[name] = sort
	ex.declOrder = append(ex.declOrder, name)
	return name
}

func (ex *Exec) fresh(prefix, sort string) string {
	ex.ctr++
	prefix = sanitize(prefix)
	return ex.declare(fmt.Sprintf("%s!%d", prefix, ex.ctr), sort)
}

func sanitize(s string) string {
	var b strings.Builder
	for _, c := range s {
		switch {
		case c >= 'a' && c <= 'z', c >= 'A' && c <= 'Z', c >= '0' && c <= '9', c == '_', c == '!', c == '.', c == '^', c == '<', c == '>', c == '$', c == '-':
			b.WriteRune(c)
		case c == '#':
			b.WriteByte('$')
		case c == ';':
			b.WriteByte('&')
		default:
			b.WriteByte('_')
		}
	}
	return b.String()
}

// ---------------------------------------------------------------------------------------------
// Heap regions

// regionSort returns the array sort of a region, recorded at first use.
func (ex *Exec) regionSort(region string) string { return ex.regSorts[region] }

func (st *State) region(name, sort string) string {
	if t, ok := st.heap[name]; ok {
		return t
	}
	ex := st.ex
	if old, ok := ex.regSorts[name]; ok && old != sort {
		panic(fmt.Sprintf("region %s sort mismatch %s vs %s", name, old, sort))
	}
	ex.regSorts[name] = sort
	c := ex.declare(sanitize(name)+"!0", sort)
	st.heap[name] = c
	return c
}

func (st *State) setRegion(name, sort, t string) {
	st.region(name, sort)
	// name the new version to keep terms small
	v := st.ex.fresh(name, sort)
	st.assume(eq(v, t))
	st.heap[name] = v
	if st.written != nil {
		st.written[name] = true
		if st.writtenOld != nil && !(st.freshRef != "" && st.ex.dryFresh[st.freshRef]) {
			st.writtenOld[name] = true
		}
	}
}

// setRegionAt is setRegion for a write that only touches object ref of the region.
func (st *State) setRegionAt(name, sort, t, ref string) {
	st.freshRef = ref
	st.setRegion(name, sort, t)
	st.freshRef = ""
}

func (st *State) havocRegion(name string) {
	sort, ok := st.ex.regSorts[name]
	if !ok {
		return
	}
	old := st.region(name, sort)
	v := st.ex.fresh(name, sort)
	st.heap[name] = v
	if name == "A" {
		// allocation only grows
		st.assume("(forall ((r Int)) (! (=> (select " + old + " r) (select " + v + " r)) :pattern ((select " + old + " r)) :pattern ((select " + v + " r))))")
	}
	if st.written != nil {
		st.written[name] = true
		if st.writtenOld != nil {
			st.writtenOld[name] = true
		}
	}
}

// readField reads leaf `path` of struct type root at object ref.
func (st *State) readLeaf(root types.Type, path, sort, ref string) string {
	return sel(st.region(fieldRegion(root, path), arr("Int", sort)), ref)
}

func (st *State) writeLeaf(root types.Type, path, sort, ref, v string) {
	name := fieldRegion(root, path)
	a := st.region(name, arr("Int", sort))
	st.setRegionAt(name, arr("Int", sort), store(a, ref, v), ref)
}

// loadAt loads a value of type t stored at (root, prefix) of object ref.
func (st *State) loadAt(root types.Type, prefix string, t types.Type, ref string) Val {
	join := func(p string) string {
		if prefix == "" {
			return p
		}
		if p == "" {
			return prefix
		}
		return prefix + "." + p
	}
	if s := scalarSort(t); s != "" {
		v := term(st.readLeaf(root, prefix, s, ref), t)
		return v
	}
	switch u := t.Underlying().(type) {
	case *types.Struct:
		fs := make([]Val, u.NumFields())
		for i := range fs {
			fs[i] = st.loadAt(root, join(u.Field(i).Name()), u.Field(i).Type(), ref)
		}
		return Val{K: KStruct, Typ: t, Fs: fs}
	case *types.Slice:
		// slices stored in the heap always start at offset 0 (storeAt refuses re-sliced values), which keeps
		// element indices free of arithmetic and quantifier instantiation reliable
		v := Val{K: KSlice, Typ: t, Fs: []Val{
			term(st.readLeaf(root, join("#id"), "Int", ref), tInt),
			term("0", tInt),
			term(st.readLeaf(root, join("#len"), "Int", ref), tInt),
		}}
		// well-formed slice headers (type invariant of the heap)
		if st.quantDepth == 0 {
			st.assume(and("(>= "+v.Fs[0].T+" 0)", "(>= "+v.Fs[2].T+" 0)", implies(eq(v.Fs[0].T, "0"), eq(v.Fs[2].T, "0"))))
		}
		return v
	}
	panic(fmt.Sprintf("loadAt: unsupported %s", t))
}

func (st *State) storeAt(root types.Type, prefix string, t types.Type, ref string, v Val) {
	join := func(p string) string {
		if prefix == "" {
			return p
		}
		return prefix + "." + p
	}
	if s := scalarSort(t); s != "" {
		st.writeLeaf(root, prefix, s, ref, st.ex.asTerm(v))
		return
	}
	switch u := t.Underlying().(type) {
	case *types.Struct:
		if v.K != KStruct {
			panic(subsetErr{"store of non-struct value into struct location: " + fmt.Sprint(v.K)})
		}
		for i := 0; i < u.NumFields(); i++ {
			st.storeAt(root, join(u.Field(i).Name()), u.Field(i).Type(), ref, v.Fs[i])
		}
	case *types.Slice:
		if v.K != KSlice {
			panic(subsetErr{"store of non-slice value into slice location"})
		}
		if v.Fs[1].T != "0" {
			panic(subsetErr{"a re-sliced slice (non-zero offset) is stored in the heap"})
		}
		st.writeLeaf(root, join("#id"), "Int", ref, v.Fs[0].T)
		st.writeLeaf(root, join("#off"), "Int", ref, "0")
		st.writeLeaf(root, join("#len"), "Int", ref, v.Fs[2].T)
	default:
		panic(subsetErr{fmt.Sprintf("storeAt: unsupported %s", t)})
	}
}

// pathOf converts a field-index path below root into dotted names and the leaf type.
func pathOf(root types.Type, path []int) (string, types.Type) {
	t := root
	var names []string
	for _, i := range path {
		s := t.Underlying().(*types.Struct)
		names = append(names, s.Field(i).Name())
		t = s.Field(i).Type()
	}
	return strings.Join(names, "."), t
}

// zeroVal returns the zero value of t.
func zeroVal(t types.Type) Val {
	if s := scalarSort(t); s != "" {
		return term(zeroTerm(s), t)
	}
	switch u := t.Underlying().(type) {
	case *types.Struct:
		fs := make([]Val, u.NumFields())
		for i := range fs {
			fs[i] = zeroVal(u.Field(i).Type())
		}
		return Val{K: KStruct, Typ: t, Fs: fs}
	case *types.Slice:
		return Val{K: KSlice, Typ: t, Fs: []Val{term("0", tInt), term("0", tInt), term("0", tInt)}}
	case *types.Array:
		fs := make([]Val, u.Len())
		for i := range fs {
			fs[i] = zeroVal(u.Elem())
		}
		return Val{K: KArray, Typ: t, Fs: fs}
	case *types.Tuple:
		fs := make([]Val, u.Len())
		for i := range fs {
			fs[i] = zeroVal(u.At(i).Type())
		}
		return Val{K: KTuple, Typ: t, Fs: fs}
	}
	panic(fmt.Sprintf("zeroVal: %s", t))
}

// freshVal returns an unconstrained symbolic value of type t.
func (st *State) freshVal(prefix string, t types.Type) Val {
	ex := st.ex
	if s := scalarSort(t); s != "" {
		c := ex.fresh(prefix, s)
		st.typeFacts(c, t)
		return term(c, t)
	}
	switch u := t.Underlying().(type) {
	case *types.Struct:
		fs := make([]Val, u.NumFields())
		for i := range fs {
			fs[i] = st.freshVal(prefix+"."+u.Field(i).Name(), u.Field(i).Type())
		}
		return Val{K: KStruct, Typ: t, Fs: fs}
	case *types.Slice:
		// WLOG a symbolic slice starts at offset 0 of its backing array (a view (id, off, len) behaves like
		// (id', 0, len) for code that neither compares backing arrays nor aliases two slice arguments)
		id := ex.fresh(prefix+"#id", "Int")
		ln := ex.fresh(prefix+"#len", "Int")
		st.assume("(>= " + id + " 0)")
		st.assume("(>= " + ln + " 0)")
		st.assume(implies(eq(id, "0"), eq(ln, "0")))
		return Val{K: KSlice, Typ: t, Fs: []Val{term(id, tInt), term("0", tInt), term(ln, tInt)}}
	case *types.Tuple:
		if u.Len() == 0 {
			return Val{K: KUnit}
		}
		fs := make([]Val, u.Len())
		for i := range fs {
			fs[i] = st.freshVal(fmt.Sprintf("%s.%d", prefix, i), u.At(i).Type())
		}
		return Val{K: KTuple, Typ: t, Fs: fs}
	}
	panic(subsetErr{fmt.Sprintf("freshVal: %s", t)})
}

// typeFacts assumes the range/validity facts of a value of Go type t held in term c.
func (st *State) typeFacts(c string, t types.Type) {
	if opaqueStruct(t) {
		return
	}
	switch u := t.Underlying().(type) {
	case *types.Basic:
		if u.Info()&types.IsInteger != 0 {
			lo, hi := intRange(u)
			st.assume("(<= " + lo + " " + c + ")")
			st.assume("(<= " + c + " " + hi + ")")
		}
	case *types.Pointer, *types.Map, *types.Chan, *types.Interface, *types.Signature:
		st.assume("(>= " + c + " 0)")
		st.assume(or(eq(c, "0"), sel(st.region("A", arr("Int", "Bool")), c)))
	}
}

func intRange(b *types.Basic) (string, string) {
	switch b.Kind() {
	case types.Int8:
		return "(- 128)", "127"
	case types.Int16:
		return "(- 32768)", "32767"
	case types.Int32:
		return "(- 2147483648)", "2147483647"
	case types.Uint8:
		return "0", "255"
	case types.Uint16:
		return "0", "65535"
	case types.Uint32:
		return "0", "4294967295"
	case types.Uint, types.Uint64, types.Uintptr:
		return "0", "18446744073709551615"
	}
	return "(- 9223372036854775808)", "9223372036854775807"
}

// allocRef allocates a fresh object reference.
func (st *State) allocRef(prefix string) string {
	r := st.ex.fresh(prefix, "Int")
	a := st.region("A", arr("Int", "Bool"))
	st.assume("(> " + r + " 0)")
	st.assume(not(sel(a, r)))
	st.setRegion("A", arr("Int", "Bool"), store(a, r, "true"))
	if st.dry && st.ex.dryFresh != nil {
		st.ex.dryFresh[r] = true
	}
	return r
}

type subsetErr struct{ msg string }

func (e subsetErr) Error() string { return e.msg }
