package main

// Replay of counterexamples on the real code through `go test -overlay` (nothing is written under /repo).

import (
	"encoding/json"
	"fmt"
	"os"
	"os/exec"
	"path/filepath"
	"regexp"
	"strconv"
	"strings"
	"time"
)

// runOverlayTest injects testSrc as <pkgDir>/zz_govc_replay_test.go and runs the named test.
func runOverlayTest(repo, pkgDir, testSrc, runName string, env []string) (string, error) {
	tmp, err := os.MkdirTemp("", "govc-replay-")
	if err != nil {
		return "", err
	}
	defer os.RemoveAll(tmp)
	src := filepath.Join(tmp, "zz_govc_replay_test.go")
	if err := os.WriteFile(src, []byte(testSrc), 0o644); err != nil {
		return "", err
	}
	ov := map[string]any{"Replace": map[string]string{filepath.Join(repo, pkgDir, "zz_govc_replay_test.go"): src}}
	ovb, _ := json.Marshal(ov)
	ovf := filepath.Join(tmp, "overlay.json")
	os.WriteFile(ovf, ovb, 0o644)
	// the go command may rewrite go.mod/go.sum under -mod=mod: keep /repo byte-identical
	modBefore, _ := os.ReadFile(filepath.Join(repo, "go.mod"))
	sumBefore, _ := os.ReadFile(filepath.Join(repo, "go.sum"))
	defer func() {
		if b, _ := os.ReadFile(filepath.Join(repo, "go.mod")); string(b) != string(modBefore) {
			os.WriteFile(filepath.Join(repo, "go.mod"), modBefore, 0o644)
		}
		if b, _ := os.ReadFile(filepath.Join(repo, "go.sum")); string(b) != string(sumBefore) {
			os.WriteFile(filepath.Join(repo, "go.sum"), sumBefore, 0o644)
		}
	}()
	cmd := exec.Command("go", "test", "-overlay", ovf, "-vet=off", "-count=1", "-timeout", "60s", "-run", "^"+runName+"$", "-v", "./"+pkgDir+"/")
	cmd.Dir = repo
	cmd.Env = append(os.Environ(), "GOFLAGS=-mod=mod", "GOPROXY=off", "GOSUMDB=off", "GOTOOLCHAIN=local")
	cmd.Env = append(cmd.Env, env...)
	done := make(chan struct{})
	var out []byte
	go func() { out, err = cmd.CombinedOutput(); close(done) }()
	select {
	case <-done:
	case <-time.After(120 * time.Second):
		if cmd.Process != nil {
			cmd.Process.Kill()
		}
		<-done
		return string(out), fmt.Errorf("replay timed out")
	}
	return string(out), err
}

// ---- sshd line replay ----------------------------------------------------------------------------

type sshdObservation struct {
	Err      string           `json:"err"`
	Events   []map[string]any `json:"events"`
	Sent     []map[string]any `json:"sent"`
	Counters map[string]int   `json:"counters"`
	Panic    string           `json:"panic"`
	Hang     bool             `json:"hang"`
	Writes   int              `json:"writes"` // Write calls the event writer received (a fault decision only applies if that write happened)
}

const sshdReplayTest = `package sshd

import (
	"bytes"
	"context"
	"encoding/json"
	"errors"
	"fmt"
	"os"
	"strings"
	"testing"
	"time"

	"github.com/metal-toolbox/auditevent"
	"github.com/prometheus/client_golang/prometheus"
	"go.uber.org/zap"

	"github.com/metal-toolbox/audito-maldito/internal/common"
	"github.com/metal-toolbox/audito-maldito/internal/metrics"
)

type govcFailWriter struct {
	buf    bytes.Buffer
	failAt int
	n      int
}

func (w *govcFailWriter) Write(p []byte) (int, error) {
	w.n++
	if w.failAt > 0 && w.n == w.failAt {
		return 0, errors.New("govc: injected write failure")
	}
	return w.buf.Write(p)
}

type govcIn struct {
	Line, PID string
	FailAt    int
	Cancel    bool
}

func TestGovcReplaySshd(t *testing.T) {
	var ins []govcIn
	if err := json.Unmarshal([]byte(os.Getenv("GOVC_REPLAY_INPUT")), &ins); err != nil {
		t.Fatal(err)
	}
	SetLogger(zap.NewNop().Sugar())
	var all []map[string]any
	for _, in := range ins {
		all = append(all, govcRunOne(in))
	}
	b, _ := json.Marshal(all)
	fmt.Println("GOVC-OBS " + string(b))
}

func govcRunOne(in govcIn) map[string]any {
	w := &govcFailWriter{failAt: in.FailAt}
	reg := prometheus.NewRegistry()
	ctx, cancel := context.WithCancel(context.Background())
	defer cancel()
	logins := make(chan common.RemoteUserLogin, 4)
	if in.Cancel {
		cancel()
		logins = make(chan common.RemoteUserLogin) // unready correlator
	}
	obs := map[string]any{}
	done := make(chan struct{})
	go func() {
		defer close(done)
		defer func() {
			if r := recover(); r != nil {
				obs["panic"] = fmt.Sprint(r)
			}
		}()
		// the processor is constructed with a context of its own (never cancelled); the per-call context governs the hand-off
		p := NewSshdProcessor(context.Background(), logins, "node-x", "machine-y", auditevent.NewDefaultAuditEventWriter(w), metrics.NewPrometheusMetricsProviderForRegisterer(reg))
		err := p.ProcessSshdLogEntry(ctx, SshdLogEntry{Message: in.Line, PID: in.PID})
		if err != nil {
			obs["err"] = err.Error()
		}
	}()
	select {
	case <-done:
	case <-time.After(2 * time.Second):
		return map[string]any{"hang": true, "counters": map[string]int{}}
	}
	var events []map[string]any
	for _, l := range strings.Split(w.buf.String(), "\n") {
		if strings.TrimSpace(l) == "" {
			continue
		}
		var e map[string]any
		if err := json.Unmarshal([]byte(l), &e); err != nil {
			e = map[string]any{"unparsable": l}
		}
		events = append(events, e)
	}
	obs["events"] = events
	obs["writes"] = w.n
	var sent []map[string]any
	for len(logins) > 0 {
		l := <-logins
		m := map[string]any{"PID": l.PID, "CredUserID": l.CredUserID}
		if l.Source != nil {
			m["loggedAs"] = l.Source.Subjects["loggedAs"]
			m["auditId"] = l.Source.Metadata.AuditID
		}
		sent = append(sent, m)
	}
	obs["sent"] = sent
	counters := map[string]int{}
	mfs, _ := reg.Gather()
	for _, mf := range mfs {
		if !strings.HasSuffix(mf.GetName(), "remote_logins_total") {
			continue
		}
		for _, m := range mf.GetMetric() {
			var ls []string
			for _, lp := range m.GetLabel() {
				ls = append(ls, lp.GetValue())
			}
			counters[strings.Join(ls, "/")] = int(m.GetCounter().GetValue())
		}
	}
	obs["counters"] = counters
	return obs
}
`

type sshdReplayInput struct {
	Line   string
	PID    string
	FailAt int
	Cancel bool
}

func replaySshdLine(repo string, in sshdReplayInput) (*sshdObservation, string, error) {
	obs, out, err := replaySshdLines(repo, []sshdReplayInput{in})
	if err != nil || len(obs) != 1 {
		if err == nil {
			err = fmt.Errorf("no observation in replay output")
		}
		return nil, out, err
	}
	return &obs[0], out, nil
}

// replaySshdLines runs several inputs in one test invocation.
// corpusMemo: the bounded corpus search runs the same inputs for every undecided obligation of a check; the tree does
// not change during a check, so one run per distinct input list is enough (single inputs are never memoised: they
// are re-run on purpose, to see whether an observation repeats).
var corpusMemo = map[string][]sshdObservation{}

func replaySshdLines(repo string, ins []sshdReplayInput) ([]sshdObservation, string, error) {
	ib, _ := json.Marshal(ins)
	if obs, ok := corpusMemo[repo+"|"+string(ib)]; ok && len(ins) > 1 {
		return obs, "(memoised corpus run)", nil
	}
	obs, out, err := replaySshdLinesRun(repo, ins, ib)
	if err == nil && len(ins) > 1 {
		corpusMemo[repo+"|"+string(ib)] = obs
	}
	return obs, out, err
}

func replaySshdLinesRun(repo string, ins []sshdReplayInput, ib []byte) ([]sshdObservation, string, error) {
	out, err := runOverlayTest(repo, "processors/sshd", sshdReplayTest, "TestGovcReplaySshd", []string{"GOVC_REPLAY_INPUT=" + string(ib)})
	for _, l := range strings.Split(out, "\n") {
		if i := strings.Index(l, "GOVC-OBS "); i >= 0 {
			var obs []sshdObservation
			if e := json.Unmarshal([]byte(l[i+9:]), &obs); e == nil {
				return obs, out, nil
			}
		}
	}
	if err == nil {
		err = fmt.Errorf("no observation in replay output")
	}
	return nil, out, err
}

// ---- values out of solver output -------------------------------------------------------------------

var reUEsc = regexp.MustCompile(`\\u\{([0-9a-fA-F]+)\}`)

// smtStringValue decodes an SMT-LIB string literal body (after get-value) into a Go string.
func smtStringValue(lit string) string {
	lit = strings.TrimSpace(lit)
	if len(lit) >= 2 && lit[0] == '"' && lit[len(lit)-1] == '"' {
		lit = lit[1 : len(lit)-1]
	}
	lit = strings.ReplaceAll(lit, `""`, `"`)
	lit = reUEsc.ReplaceAllStringFunc(lit, func(m string) string {
		n, _ := strconv.ParseInt(reUEsc.FindStringSubmatch(m)[1], 16, 32)
		return string(rune(n))
	})
	return lit
}

var reGetValueY = regexp.MustCompile(`(?s)\(\(y\s+(".*")\)\)`)

func lemmaModelLine(model string) (string, bool) {
	m := reGetValueY.FindStringSubmatch(model)
	if m == nil {
		return "", false
	}
	return smtStringValue(m[1]), true
}

// splitMarked extracts, from a marked line, the plain line and the field values between S(k)/E(k) markers.
func splitMarked(y string) (string, map[int]string) {
	var plain strings.Builder
	fields := map[int]string{}
	open := map[int]int{}
	for _, r := range y {
		if r >= markerBase && r < markerBase+0x100 {
			m := int(r - markerBase)
			if m == bMarker {
				continue
			}
			if m%2 == 0 {
				open[m/2] = plain.Len()
			} else if st, ok := open[m/2]; ok {
				fields[m/2] = plain.String()[st:]
			}
			continue
		}
		plain.WriteRune(r)
	}
	return plain.String(), fields
}

// sample returns one member of the language of a literal/repetition item sequence.
func sampleItems(items []rxItem) string {
	var b strings.Builder
	for _, it := range items {
		if it.class == nil {
			b.WriteString(it.lit)
			continue
		}
		n := it.min
		if n == 0 {
			n = 1
		}
		var ch rune = -1
		for _, pref := range []rune{'a', '1', 'A', '/', ' ', '.'} {
			for i := 0; i+1 < len(it.class); i += 2 {
				if pref >= it.class[i] && pref <= it.class[i+1] {
					ch = pref
				}
			}
			if ch >= 0 {
				break
			}
		}
		if ch < 0 && len(it.class) > 0 {
			ch = it.class[0]
		}
		for i := 0; i < n+2 && (it.max != 1 || i < 1); i++ {
			b.WriteRune(ch)
		}
	}
	return b.String()
}

// eventValues flattens the string values of an event (subjects, source, extras, data) for membership tests.
func eventValues(e map[string]any) map[string]string {
	out := map[string]string{}
	var rec func(prefix string, v any)
	rec = func(prefix string, v any) {
		switch x := v.(type) {
		case map[string]any:
			for k, vv := range x {
				rec(prefix+"."+k, vv)
			}
		case string:
			out[strings.TrimPrefix(prefix, ".")] = x
		}
	}
	rec("", e)
	return out
}
