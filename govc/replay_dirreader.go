package main

import (
	"encoding/json"
	"fmt"
	"sort"
	"strconv"
	"strings"
)

const dirreaderReplayTest = `package dirreader

import (
	"encoding/json"
	"fmt"
	"io/fs"
	"os"
	"testing"
)

type govcEntry struct{ name string }

func (e govcEntry) Name() string               { return e.name }
func (e govcEntry) IsDir() bool                { return false }
func (e govcEntry) Type() fs.FileMode          { return 0 }
func (e govcEntry) Info() (fs.FileInfo, error) { return nil, nil }

func TestGovcReplaySort(t *testing.T) {
	var sets [][]string
	if err := json.Unmarshal([]byte(os.Getenv("GOVC_REPLAY_INPUT")), &sets); err != nil {
		t.Fatal(err)
	}
	var out [][]string
	for _, names := range sets {
		var es []os.DirEntry
		for _, n := range names {
			es = append(es, govcEntry{n})
		}
		out = append(out, sortLogNamesOldToNew(es))
	}
	b, _ := json.Marshal(out)
	fmt.Println("GOVC-OBS " + string(b))
}
`

func init() {
	replayAdapters["sortLogNamesOldToNew"] = replaySortLogNames
}

func logAge(n string) int {
	if n == "audit.log" {
		return 0
	}
	v, _ := strconv.Atoi(strings.TrimPrefix(n, "audit.log."))
	return v
}

// replaySortLogNames: bounded search for a failing directory listing (the quantified goal has no solver model):
// the live log plus K rotations for several K, in directory (lexical) order.
func replaySortLogNames(w *World, rp *Replay, id string, o *Obligation, repo string) {
	var sets [][]string
	for _, k := range []int{0, 1, 4, 9, 10, 11, 25, 120} {
		names := []string{"audit.log"}
		for i := 1; i <= k; i++ {
			names = append(names, "audit.log."+strconv.Itoa(i))
		}
		sort.Strings(names)
		sets = append(sets, names)
	}
	ib, _ := json.Marshal(sets)
	out, err := runOverlayTest(repo, "processors/auditd/dirreader", dirreaderReplayTest, "TestGovcReplaySort", []string{"GOVC_REPLAY_INPUT=" + string(ib)})
	var obs [][]string
	for _, l := range strings.Split(out, "\n") {
		if i := strings.Index(l, "GOVC-OBS "); i >= 0 {
			json.Unmarshal([]byte(l[i+9:]), &obs)
		}
	}
	if obs == nil {
		rp.ReplayLog = trunc(out, 2000)
		rp.Notes = append(rp.Notes, fmt.Sprint("replay did not run: ", err))
		return
	}
	for si, res := range obs {
		for i := 0; i+1 < len(res); i++ {
			if logAge(res[i]) < logAge(res[i+1]) {
				rp.Confirmed = true
				rp.Inputs = map[string]any{"directory": sets[si], "found_by": "bounded search over directory listings (no solver model for the quantified goal)"}
				rp.ReplayLog = mustJSON(res)
				rp.Notes = append(rp.Notes, fmt.Sprintf("C20: with %d rotated files the real sortLogNamesOldToNew returns %s before %s: a newer rotation is read before an older one (string order instead of numeric order)", len(sets[si])-1, res[i], res[i+1]))
				return
			}
		}
		if len(res) != len(sets[si]) {
			rp.Confirmed = true
			rp.Inputs = map[string]any{"directory": sets[si]}
			rp.Notes = append(rp.Notes, "C20: the result does not contain every log file of the directory")
			return
		}
	}
	rp.Notes = append(rp.Notes, "none of the directory listings tried is ordered wrongly by the real code")
}
