package main

import (
	"encoding/json"
	"fmt"
	"strings"
)

const syslogReplayTest = `package syslog

import (
	"encoding/json"
	"fmt"
	"os"
	"testing"
)

func TestGovcReplaySyslog(t *testing.T) {
	var in struct{ Entry string }
	if err := json.Unmarshal([]byte(os.Getenv("GOVC_REPLAY_INPUT")), &in); err != nil {
		t.Fatal(err)
	}
	s := &SyslogIngester{}
	r := s.ParseSyslogMessage(in.Entry)
	b, _ := json.Marshal(map[string]string{"PID": r.PID, "Message": r.Message})
	fmt.Println("GOVC-OBS " + string(b))
}
`

func init() {
	replayAdapters["(*SyslogIngester).ParseSyslogMessage"] = replaySyslogParse
}

// replaySyslogParse: run the real ParseSyslogMessage on the model's record and compare with the
// record's own decomposition (PID token, padding, message, terminator).
func replaySyslogParse(w *World, rp *Replay, id string, o *Obligation, repo string) {
	entry, ok := modelString(o.Inputs, "entry", "root")
	if !ok {
		rp.Notes = append(rp.Notes, "the solver's model does not determine the record")
		return
	}
	ib, _ := json.Marshal(map[string]string{"Entry": entry})
	out, err := runOverlayTest(repo, "ingesters/syslog", syslogReplayTest, "TestGovcReplaySyslog", []string{"GOVC_REPLAY_INPUT=" + string(ib)})
	rp.Inputs = map[string]any{"entry": entry}
	var obs map[string]string
	for _, l := range strings.Split(out, "\n") {
		if i := strings.Index(l, "GOVC-OBS "); i >= 0 {
			json.Unmarshal([]byte(l[i+9:]), &obs)
		}
	}
	if obs == nil {
		rp.ReplayLog = trunc(out, 2000)
		rp.Notes = append(rp.Notes, fmt.Sprint("replay did not run: ", err))
		return
	}
	rp.ReplayLog = mustJSON(obs)
	// independent decomposition of a record "<pid> +<msg>\n"
	if !strings.HasSuffix(entry, "\n") || strings.Count(entry, "\n") != 1 {
		rp.Notes = append(rp.Notes, "the model's string is not a single terminated record")
		return
	}
	body := strings.TrimSuffix(entry, "\n")
	i := strings.Index(body, " ")
	if i < 0 {
		rp.Notes = append(rp.Notes, "the model's record has no padding")
		return
	}
	pid, msg := body[:i], strings.TrimLeft(body[i:], " ")
	if obs["PID"] != pid || obs["Message"] != msg {
		rp.Confirmed = true
		rp.Notes = append(rp.Notes, fmt.Sprintf("record %q: expected PID %q message %q, the real ParseSyslogMessage returned PID %q message %q", entry, pid, msg, obs["PID"], obs["Message"]))
	} else {
		rp.Notes = append(rp.Notes, "the real code parses this record as specified (contract-level failure only)")
	}
}
