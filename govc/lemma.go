package main

// Regular-language lemmas over the derived regexp contracts (DESIGN.md 3.7b): for every line of a given
// OpenSSH message format, the capture groups of the pattern the dispatcher routes it to are exactly the
// printed fields. All queries are emptiness problems over ONE symbolic string carrying marker characters.

import (
	"encoding/json"
	"fmt"
	"go/types"
	"os"
	"path/filepath"
	"strings"

	"golang.org/x/tools/go/ssa"
)

// ---- format oracle ---------------------------------------------------------------------------

type fmtField struct {
	Name    string   `json:"field"`
	Group   string   `json:"group"`   // capture group expected to hold this field ("" = not captured)
	Domain  string   `json:"domain"`  // regular domain (same fragment as the patterns)
	Exclude []string `json:"exclude"` // literal substrings the field value must not contain
	items   []rxItem
}

type fmtItem struct {
	Lit   string
	Field *fmtField
}

type sshdForm struct {
	Name    string            `json:"name"`
	Raw     []json.RawMessage `json:"items"`
	Handler string            `json:"handler"` // expected handler function (from the property statement)
	Regex   string            `json:"regex"`   // for sub-forms applied to a remainder (certIDRE)
	Props   []string          `json:"props"`
	items   []fmtItem
}

func loadForms() ([]*sshdForm, error) {
	b, err := os.ReadFile(filepath.Join(verifRoot(), "specs", "sshd_formats.json"))
	if err != nil {
		return nil, err
	}
	var doc struct {
		Forms []*sshdForm `json:"forms"`
	}
	if err := json.Unmarshal(b, &doc); err != nil {
		return nil, err
	}
	for _, f := range doc.Forms {
		for _, r := range f.Raw {
			var s string
			if json.Unmarshal(r, &s) == nil {
				f.items = append(f.items, fmtItem{Lit: s})
				continue
			}
			var fld fmtField
			if err := json.Unmarshal(r, &fld); err != nil {
				return nil, fmt.Errorf("form %s: %v", f.Name, err)
			}
			ri := newRegexInfo("domain", fld.Domain, 0)
			if !ri.subsetOK || ri.anchorL || ri.anchorR {
				return nil, fmt.Errorf("form %s field %s: domain %q outside the fragment (%s)", f.Name, fld.Name, fld.Domain, ri.subsetWhy)
			}
			fld.items = ri.items
			ff := fld
			f.items = append(f.items, fmtItem{Field: &ff})
		}
	}
	return doc.Forms, nil
}

// ---- marker regexes ----------------------------------------------------------------------------

const markerBase = 0xE000

func mk(i int) string { return fmt.Sprintf(`"\u{%x}"`, markerBase+i) }

// classNoMarkers renders class c minus the marker range.
func classNoMarkers(c []rune) string {
	var out []rune
	for i := 0; i+1 < len(c); i += 2 {
		lo, hi := c[i], c[i+1]
		if hi > 0x2FFFF {
			hi = 0x2FFFF
		}
		if lo > hi {
			continue
		}
		mlo, mhi := rune(markerBase), rune(markerBase+0xFF)
		if hi < mlo || lo > mhi {
			out = append(out, lo, hi)
			continue
		}
		if lo < mlo {
			out = append(out, lo, mlo-1)
		}
		if hi > mhi {
			out = append(out, mhi+1, hi)
		}
	}
	return smtClass(out)
}

var anyReal = classNoMarkers([]rune{0, 0x2FFFF})

func reCat(parts ...string) string {
	var xs []string
	for _, p := range parts {
		if p != "" && p != `(str.to_re "")` {
			xs = append(xs, p)
		}
	}
	switch len(xs) {
	case 0:
		return `(str.to_re "")`
	case 1:
		return xs[0]
	}
	return "(re.++ " + strings.Join(xs, " ") + ")"
}

func reUnion(parts ...string) string {
	switch len(parts) {
	case 0:
		return "re.none"
	case 1:
		return parts[0]
	}
	return "(re.union " + strings.Join(parts, " ") + ")"
}

// skipper: (m1|m2|...)* for the foreign markers that may appear anywhere.
func skipper(foreign []int) string {
	if len(foreign) == 0 {
		return ""
	}
	var ms []string
	for _, m := range foreign {
		ms = append(ms, "(str.to_re "+mk(m)+")")
	}
	return "(re.* " + reUnion(ms...) + ")"
}

// litSkip: literal with the skipper before every character.
func litSkip(lit string, X string) string {
	if X == "" {
		if lit == "" {
			return ""
		}
		return "(str.to_re " + smtStr(lit) + ")"
	}
	var parts []string
	for _, r := range lit {
		parts = append(parts, X, "(str.to_re "+smtStr(string(r))+")")
	}
	return reCat(parts...)
}

// itemSkip: one literal/repetition item with the skipper before every character.
func itemSkip(it rxItem, X string) string {
	if it.class == nil {
		return litSkip(it.lit, X)
	}
	c := classNoMarkers(it.class)
	one := reCat(X, c)
	switch {
	case it.max == 1:
		return one
	case it.min == 0:
		return "(re.* " + one + ")"
	}
	return "(re.+ " + one + ")"
}

func itemsSkip(items []rxItem, X string) string {
	var parts []string
	for _, it := range items {
		parts = append(parts, itemSkip(it, X))
	}
	return reCat(parts...)
}

// ---- alignment ---------------------------------------------------------------------------------

type alignment struct {
	form    *sshdForm
	re      *regexInfo
	reps    []int // indices into re.items of the repetitions
	fields  []int // indices into form.items of the aligned fields
	problem string
}

// align pairs the i-th repetition of the pattern with the i-th field of the format and checks that the
// literals between them are identical strings.
func align(f *sshdForm, ri *regexInfo) *alignment {
	a := &alignment{form: f, re: ri}
	for i, it := range ri.items {
		if it.class != nil {
			a.reps = append(a.reps, i)
		}
	}
	for i, it := range f.items {
		if it.Field != nil {
			a.fields = append(a.fields, i)
		}
	}
	if len(a.fields) < len(a.reps) {
		a.problem = fmt.Sprintf("pattern has %d repetitions but the format has %d fields", len(a.reps), len(a.fields))
		return a
	}
	// literal before the first rep, and between consecutive reps
	gl := func(from, to int) string { // literal text of pattern items in (from,to)
		s := ""
		for i := from + 1; i < to; i++ {
			s += ri.items[i].lit
		}
		return s
	}
	fl := func(from, to int) (string, bool) {
		s := ""
		for i := from + 1; i < to; i++ {
			if f.items[i].Field != nil {
				return "", false
			}
			s += f.items[i].Lit
		}
		return s, true
	}
	prevG, prevF := -1, -1
	for k := range a.reps {
		g := gl(prevG, a.reps[k])
		fs, ok := fl(prevF, a.fields[k])
		if !ok || g != fs {
			a.problem = fmt.Sprintf("literal before repetition %d differs: pattern %q, format %q", k+1, g, fs)
			return a
		}
		// captured group name must be the field's group
		it := ri.items[a.reps[k]]
		fld := f.items[a.fields[k]].Field
		if it.capName != fld.Group {
			a.problem = fmt.Sprintf("repetition %d captures group %q but the format's field %q belongs in group %q", k+1, it.capName, fld.Name, fld.Group)
			return a
		}
		prevG, prevF = a.reps[k], a.fields[k]
	}
	return a
}

// tails: pattern literal after the last repetition; format items after the last aligned field.
func (a *alignment) tails() (string, []fmtItem) {
	gt := ""
	last := -1
	if len(a.reps) > 0 {
		last = a.reps[len(a.reps)-1]
	}
	for i := last + 1; i < len(a.re.items); i++ {
		gt += a.re.items[i].lit
	}
	lf := -1
	if len(a.reps) > 0 {
		lf = a.fields[len(a.reps)-1]
	}
	return gt, a.form.items[lf+1:]
}

// formRegex renders format items [from:] with own markers: S(k)=2k before field k, E(k)=2k+1 after it
// (k = index among the form's fields), skipping the foreign markers in X.
func (a *alignment) formRegex(from int, X string, withMarkers bool) string {
	var parts []string
	fi := 0
	for i, it := range a.form.items {
		if it.Field != nil {
			if i >= from {
				if withMarkers {
					parts = append(parts, X, "(str.to_re "+mk(2*fi)+")")
				}
				parts = append(parts, itemsSkip(it.Field.items, X))
				if withMarkers {
					parts = append(parts, X, "(str.to_re "+mk(2*fi+1)+")")
				}
			}
			fi++
			continue
		}
		if i >= from {
			parts = append(parts, litSkip(it.Lit, X))
		}
	}
	parts = append(parts, X)
	return reCat(parts...)
}

func (a *alignment) nFields() int {
	n := 0
	for _, it := range a.form.items {
		if it.Field != nil {
			n++
		}
	}
	return n
}

// fieldNo: index among the form's fields of the field aligned with repetition k.
func (a *alignment) fieldNo(k int) int {
	n := 0
	for i := 0; i < a.fields[k]; i++ {
		if a.form.items[i].Field != nil {
			n++
		}
	}
	return n
}

// excludeConstraints: regular constraints "field k does not contain literal sep".
func (a *alignment) excludeConstraints(allMarkers []int) []string {
	X := skipper(allMarkers)
	var out []string
	fi := 0
	for _, it := range a.form.items {
		if it.Field == nil {
			continue
		}
		for _, sep := range it.Field.Exclude {
			inner := "(re.comp " + reCat("re.all", litSkip(sep, X), "re.all") + ")"
			out = append(out, reCat("re.all", "(str.to_re "+mk(2*fi)+")", inner, "(str.to_re "+mk(2*fi+1)+")", "re.all"))
		}
		fi++
	}
	return out
}

const bMarker = 0xF0 // the pattern's own marker for the end of repetition j

type lemmaQ struct {
	name  string
	note  string
	smt   string
	model string
}

func lemmaScript(constraints []string) string {
	var b strings.Builder
	b.WriteString("(set-option :produce-models true)\n(set-logic QF_S)\n(declare-fun y () String)\n")
	for _, c := range constraints {
		b.WriteString("(assert " + c + ")\n")
	}
	b.WriteString("(check-sat)\n")
	return b.String()
}

// queries builds the lemma queries of one (form, pattern) pair; every query must be unsat.
func (a *alignment) queries(prefix string) []lemmaQ {
	var qs []lemmaQ
	if a.problem != "" {
		qs = append(qs, lemmaQ{name: prefix + "/align", note: a.problem, smt: ""})
		return qs
	}
	ri := a.re
	nf := a.nFields()
	var fMarkers []int
	for k := 0; k < nf; k++ {
		fMarkers = append(fMarkers, 2*k, 2*k+1)
	}
	allM := append(append([]int(nil), fMarkers...), bMarker)
	excl := a.excludeConstraints(allM)
	// (E) existence: every field value is an admissible content of its repetition
	for k := range a.reps {
		it := ri.items[a.reps[k]]
		fld := a.form.items[a.fields[k]].Field
		dom := itemsSkip(fld.items, "")
		cs := []string{"(str.in_re y " + dom + ")", "(not (str.in_re y " + itemSkip(it, "") + "))"}
		for _, sep := range fld.Exclude {
			cs = append(cs, "(not (str.contains y "+smtStr(sep)+"))")
		}
		qs = append(qs, lemmaQ{name: fmt.Sprintf("%s/exists:%s", prefix, fld.Name), note: fmt.Sprintf("every %s value (%s) is matched by %s", fld.Name, fld.Domain, rxString(it)), smt: lemmaScript(cs)})
	}
	// tail: after the last repetition the pattern's literal (and $) must accept what the format prints
	gt, ft := a.tails()
	{
		var parts []string
		for _, it := range ft {
			if it.Field != nil {
				parts = append(parts, itemsSkip(it.Field.items, ""))
			} else {
				parts = append(parts, litSkip(it.Lit, ""))
			}
		}
		ftail := reCat(parts...)
		gtail := litSkip(gt, "")
		if !ri.anchorR {
			gtail = reCat(gtail, "re.all")
		}
		if gtail == "" {
			gtail = `(str.to_re "")`
		}
		cs := []string{"(str.in_re y " + ftail + ")", "(not (str.in_re y " + gtail + "))"}
		qs = append(qs, lemmaQ{name: prefix + "/exists:tail", note: fmt.Sprintf("the text after the last field is accepted by the pattern's tail %q (anchored=%v)", gt, ri.anchorR), smt: lemmaScript(cs)})
	}
	// (U) dominance: no valid parse agrees with the intended one before repetition j and makes j longer
	for j := range a.reps {
		fj := a.fieldNo(j)
		// format side: all own markers; the foreign marker B may appear anywhere after E(fj)
		var fparts []string
		fi := 0
		for _, it := range a.form.items {
			X := ""
			if fi > fj {
				X = skipper([]int{bMarker})
			}
			if it.Field != nil {
				Xin := X
				fparts = append(fparts, X, "(str.to_re "+mk(2*fi)+")", itemsSkip(it.Field.items, Xin), Xin, "(str.to_re "+mk(2*fi+1)+")")
				fi++
				continue
			}
			fparts = append(fparts, litSkip(it.Lit, X))
		}
		fparts = append(fparts, skipper([]int{bMarker}))
		RF := reCat(fparts...)
		// pattern side: E markers shared for repetitions before j; rep j = C* E(fj) C+ B; all S markers and later E markers skipped
		var gparts []string
		rk := 0
		for _, it := range ri.items {
			var foreign []int
			for k := 0; k < nf; k++ {
				foreign = append(foreign, 2*k) // S markers anywhere
				if k > fj {
					foreign = append(foreign, 2*k+1)
				}
			}
			// field markers of unaligned fields lying between aligned ones (none by construction of align) are skipped too
			X := skipper(foreign)
			if it.class == nil {
				gparts = append(gparts, litSkip(it.lit, X))
				continue
			}
			switch {
			case rk < j:
				gparts = append(gparts, itemSkip(it, X), X, "(str.to_re "+mk(2*a.fieldNo(rk)+1)+")")
			case rk == j:
				c := reCat(X, classNoMarkers(it.class))
				if it.max == 1 {
					// a single-character item cannot be longer
					gparts = append(gparts, "re.none")
				} else {
					gparts = append(gparts, "(re.* "+c+")", X, "(str.to_re "+mk(2*fj+1)+")", "(re.+ "+c+")", X, "(str.to_re "+mk(bMarker)+")")
				}
			default:
				gparts = append(gparts, itemSkip(it, X))
			}
			rk++
		}
		var foreignAll []int
		for k := 0; k < nf; k++ {
			foreignAll = append(foreignAll, 2*k, 2*k+1)
		}
		if ri.anchorR {
			gparts = append(gparts, skipper(foreignAll))
		} else {
			gparts = append(gparts, "(re.* "+reUnion(anyReal, skipper(foreignAll))+")")
		}
		RG := reCat(gparts...)
		cs := []string{"(str.in_re y " + RF + ")", "(str.in_re y " + RG + ")"}
		for _, e := range excl {
			cs = append(cs, "(str.in_re y "+e+")")
		}
		it := ri.items[a.reps[j]]
		nm := it.capName
		if nm == "" {
			nm = fmt.Sprintf("rep%d", j+1)
		}
		qs = append(qs, lemmaQ{name: fmt.Sprintf("%s/group:%s", prefix, nm), note: fmt.Sprintf("no parse of a %s line gives %s more text than the printed field %s", a.form.Name, rxString(it), a.form.items[a.fields[j]].Field.Name), smt: lemmaScript(cs)})
	}
	return qs
}

func rxString(it rxItem) string {
	if it.class == nil {
		return fmt.Sprintf("%q", it.lit)
	}
	n := it.capName
	if n == "" {
		n = "(uncaptured)"
	}
	return "group " + n
}

// formLang: the format's language without markers.
func (f *sshdForm) lang() string {
	var parts []string
	for _, it := range f.items {
		if it.Field != nil {
			parts = append(parts, itemsSkip(it.Field.items, ""))
		} else {
			parts = append(parts, litSkip(it.Lit, ""))
		}
	}
	return reCat(parts...)
}

func (f *sshdForm) excludeSimple() []string {
	// exclusion constraints cannot be expressed without markers; dispatch lemmas over-approximate the format
	return nil
}

// matchLang: the set of strings a pattern matches (unanchored sides padded).
func (ri *regexInfo) matchLang() string {
	var parts []string
	if !ri.anchorL {
		parts = append(parts, "re.all")
	}
	parts = append(parts, itemsSkip(ri.items, ""))
	if !ri.anchorR {
		parts = append(parts, "re.all")
	}
	return reCat(parts...)
}

// ---- dispatch table extracted from the code ----------------------------------------------------

type dispatchCase struct {
	prefix    string     // strings.HasPrefix(line, prefix)
	re        *regexInfo // re.MatchString(line)
	handler   *ssa.Function
	nested    *ssa.Function // handler computed by this function (userTypeLogAuditFn)
	fromTable *ssa.Global   // the case comes from a static (pattern, handler) table
}

// extractDispatch reads the if-chain of fn: each condition is HasPrefix(x, const) or re.MatchString(x).
func (w *World) extractDispatch(fn *ssa.Function) ([]dispatchCase, string) {
	var cases []dispatchCase
	if fn == nil || len(fn.Blocks) == 0 {
		return nil, "function not found"
	}
	b := fn.Blocks[0]
	seen := map[*ssa.BasicBlock]bool{}
	for b != nil && !seen[b] {
		seen[b] = true
		var iff *ssa.If
		if n := len(b.Instrs); n > 0 {
			iff, _ = b.Instrs[n-1].(*ssa.If)
		}
		if iff == nil {
			if j, ok := b.Instrs[len(b.Instrs)-1].(*ssa.Jump); ok && len(cases) == 0 {
				_ = j
				b = b.Succs[0]
				continue
			}
			break
		}
		call, ok := iff.Cond.(*ssa.Call)
		if !ok {
			break
		}
		callee := call.Common().StaticCallee()
		if callee == nil {
			break
		}
		dc := dispatchCase{}
		switch callee.String() {
		case "strings.HasPrefix":
			c, ok := call.Common().Args[1].(*ssa.Const)
			if !ok {
				return cases, "HasPrefix with a non-constant prefix"
			}
			dc.prefix = strings.Trim(c.Value.ExactString(), `"`)
		case "(*regexp.Regexp).MatchString":
			ld, ok := call.Common().Args[0].(*ssa.UnOp)
			if !ok {
				return cases, "MatchString on a non-global"
			}
			g, ok := ld.X.(*ssa.Global)
			if !ok {
				return cases, "MatchString on a non-global"
			}
			dc.re = w.regexGlobals[g]
			if dc.re == nil {
				return cases, "MatchString on an unknown pattern"
			}
		default:
			return cases, "unrecognised dispatch condition " + callee.String()
		}
		// true branch: the handler stored / returned
		tb := b.Succs[0]
		for _, in := range tb.Instrs {
			switch x := in.(type) {
			case *ssa.Store:
				switch v := x.Val.(type) {
				case *ssa.Function:
					dc.handler = v
				case *ssa.Call:
					if sc := v.Common().StaticCallee(); sc != nil && dc.handler == nil {
						dc.nested = sc
					}
				case *ssa.ChangeType:
					if f, ok := v.X.(*ssa.Function); ok {
						dc.handler = f
					}
					if cl, ok := v.X.(*ssa.Call); ok {
						if sc := cl.Common().StaticCallee(); sc != nil && dc.handler == nil {
							dc.nested = sc
						}
					}
				}
			case *ssa.Return:
				if len(x.Results) == 1 {
					if f, ok := x.Results[0].(*ssa.Function); ok && dc.handler == nil {
						dc.handler = f
					}
				}
			}
		}
		// NaiveForm: `return f` stores into the result cell first
		if dc.handler == nil && dc.nested == nil {
			return cases, "dispatch arm without a recognisable handler"
		}
		cases = append(cases, dc)
		b = b.Succs[1]
	}
	// a table-driven tail: `for … range table { if table[i].re.MatchString(x) { return table[i].fn } }` over a static
	// table of (pattern, handler) pairs contributes its entries, in order, after the if-chain
	for _, blk := range fn.Blocks {
		for _, in := range blk.Instrs {
			ld, ok := in.(*ssa.UnOp)
			if !ok {
				continue
			}
			g, ok := ld.X.(*ssa.Global)
			if !ok {
				continue
			}
			tab := w.staticTableOf(g)
			if tab == nil {
				continue
			}
			reF, fnF := -1, -1
			for j := 0; j < tab.elem.NumFields(); j++ {
				ft := tab.elem.Field(j).Type()
				if strings.HasSuffix(ft.String(), "regexp.Regexp") {
					reF = j
				}
				if _, ok := ft.Underlying().(*types.Signature); ok {
					fnF = j
				}
			}
			if reF < 0 || fnF < 0 {
				continue
			}
			seenTab := false
			for _, c := range cases {
				if c.fromTable == g {
					seenTab = true
				}
			}
			if seenTab {
				continue
			}
			for _, fs := range tab.fields {
				rg, ok1 := fs[reF].(*ssa.Global)
				hf, ok2 := fs[fnF].(*ssa.Function)
				if !ok1 || !ok2 || w.regexGlobals[rg] == nil {
					return cases, "table entry that is not a (pattern, handler) pair"
				}
				cases = append(cases, dispatchCase{re: w.regexGlobals[rg], handler: hf, fromTable: g})
			}
		}
	}
	if len(cases) == 0 {
		return nil, "no dispatch conditions recognised"
	}
	return cases, ""
}

// handlerRegexes: the patterns a handler applies with FindStringSubmatch, in order.
func (w *World) handlerRegexes(fn *ssa.Function) []*regexInfo {
	var out []*regexInfo
	seen := map[*regexInfo]bool{}
	for _, b := range fn.Blocks {
		for _, in := range b.Instrs {
			call, ok := in.(*ssa.Call)
			if !ok {
				continue
			}
			sc := call.Common().StaticCallee()
			if sc == nil || sc.String() != "(*regexp.Regexp).FindStringSubmatch" {
				continue
			}
			if ld, ok := call.Common().Args[0].(*ssa.UnOp); ok {
				if g, ok := ld.X.(*ssa.Global); ok {
					if ri := w.regexGlobals[g]; ri != nil && !seen[ri] {
						seen[ri] = true
						out = append(out, ri)
					}
				}
			}
		}
	}
	return out
}

// ---- the lemma runner ----------------------------------------------------------------------------

func (w *World) sshdFunc(name string) *ssa.Function {
	fs := w.findFuncs(modulePath + "/processors/sshd." + name)
	if len(fs) == 0 {
		return nil
	}
	return fs[0]
}

// sshdLemmas generates the queries for all forms tagged with property prop.
func (w *World) sshdLemmas(prop string) ([]lemmaQ, []string) {
	var qs []lemmaQ
	var notes []string
	forms, err := loadForms()
	if err != nil {
		return []lemmaQ{{name: "lemma/formats", note: "cannot load the format oracle: " + err.Error()}}, nil
	}
	top, why := w.extractDispatch(w.sshdFunc("ProcessEntry"))
	if len(top) == 0 {
		// the dispatch chain was moved into a helper that ProcessEntry calls and that returns the handler
		if pe := w.sshdFunc("ProcessEntry"); pe != nil {
			for _, b := range pe.Blocks {
				for _, in := range b.Instrs {
					c, ok := in.(*ssa.Call)
					if !ok {
						continue
					}
					sc := c.Common().StaticCallee()
					if sc == nil || sc.Blocks == nil || fnPkgPath(sc) != fnPkgPath(pe) || sc.Signature.Results().Len() == 0 {
						continue
					}
					if _, isFn := sc.Signature.Results().At(0).Type().Underlying().(*types.Signature); !isFn {
						continue
					}
					if t2, why2 := w.extractDispatch(sc); len(t2) > 0 {
						top, why = t2, why2
					}
				}
			}
		}
	}
	if why != "" {
		return []lemmaQ{{name: "lemma/dispatch:ProcessEntry", note: "dispatch table not recognised: " + why}}, nil
	}
	for _, f := range forms {
		want := false
		for _, p := range f.Props {
			if p == prop {
				want = true
			}
		}
		if !want {
			continue
		}
		prefix := "lemma." + f.Name
		notes = append(notes, fmt.Sprintf("format oracle %s: %s", f.Name, f.describe()))
		if f.Regex != "" {
			// sub-form applied to a remainder string: only the group lemmas against the named pattern
			ri := w.regexByNameAny(f.Regex)
			if ri == nil || !ri.subsetOK {
				qs = append(qs, lemmaQ{name: prefix + "/pattern", note: "pattern " + f.Regex + " missing or outside the fragment"})
				continue
			}
			qs = append(qs, align(f, ri).queries(prefix)...)
			continue
		}
		// route through the dispatcher: earlier conditions must reject every line of the form
		var handler *ssa.Function
		table := top
		depth := 0
	route:
		for depth < 3 {
			depth++
			for i, dc := range table {
				var cond string
				var condName string
				if dc.re != nil {
					if !dc.re.subsetOK {
						qs = append(qs, lemmaQ{name: prefix + "/dispatch:" + dc.re.name, note: "pattern outside the fragment: " + dc.re.subsetWhy})
						continue
					}
					cond, condName = dc.re.matchLang(), dc.re.name
				} else {
					cond, condName = reCat("(str.to_re "+smtStr(dc.prefix)+")", "re.all"), fmt.Sprintf("prefix(%q)", dc.prefix)
				}
				target := ""
				if dc.handler != nil {
					target = dc.handler.Name()
				} else if dc.nested != nil {
					target = dc.nested.Name()
				}
				isMine := target == f.Handler || (dc.nested != nil && f.handlerVia(w, dc.nested))
				if !isMine {
					// static shortcut: different literal prefixes cannot overlap
					if dc.prefix != "" && len(f.items) > 0 && f.items[0].Field == nil && !strings.HasPrefix(f.items[0].Lit, dc.prefix) && !strings.HasPrefix(dc.prefix, f.items[0].Lit) {
						continue
					}
					qs = append(qs, lemmaQ{name: fmt.Sprintf("%s/dispatch:not-%s", prefix, condName), note: fmt.Sprintf("no %s line satisfies the earlier dispatch condition %s", f.Name, condName),
						smt: lemmaScript([]string{"(str.in_re y " + f.lang() + ")", "(str.in_re y " + cond + ")"})})
					continue
				}
				qs = append(qs, lemmaQ{name: fmt.Sprintf("%s/dispatch:%s", prefix, condName), note: fmt.Sprintf("every %s line satisfies the dispatch condition %s", f.Name, condName),
					smt: lemmaScript([]string{"(str.in_re y " + f.lang() + ")", "(not (str.in_re y " + cond + "))"})})
				_ = i
				if dc.handler != nil {
					handler = dc.handler
					break route
				}
				sub, why := w.extractDispatch(dc.nested)
				if why != "" {
					qs = append(qs, lemmaQ{name: prefix + "/dispatch:" + dc.nested.Name(), note: "nested dispatch not recognised: " + why})
					break route
				}
				table = sub
				continue route
			}
			break
		}
		if handler == nil {
			qs = append(qs, lemmaQ{name: prefix + "/dispatch:route", note: fmt.Sprintf("the dispatcher has no arm leading to handler %s", f.Handler)})
			continue
		}
		if handler.Name() != f.Handler {
			qs = append(qs, lemmaQ{name: prefix + "/dispatch:handler", note: fmt.Sprintf("the form is routed to %s, expected %s", handler.Name(), f.Handler)})
			continue
		}
		res := w.handlerRegexes(handler)
		if len(res) == 0 {
			// handler without a pattern (Certificate invalid): nothing to align
			continue
		}
		qs = append(qs, align(f, res[0]).queries(prefix)...)
	}
	return qs, notes
}

func (f *sshdForm) handlerVia(w *World, nested *ssa.Function) bool {
	sub, why := w.extractDispatch(nested)
	if why != "" {
		return false
	}
	for _, dc := range sub {
		if dc.handler != nil && dc.handler.Name() == f.Handler {
			return true
		}
	}
	return false
}

func (f *sshdForm) describe() string {
	var b strings.Builder
	for _, it := range f.items {
		if it.Field != nil {
			fmt.Fprintf(&b, "{%s:%s", it.Field.Name, it.Field.Domain)
			for _, e := range it.Field.Exclude {
				fmt.Fprintf(&b, " without %q", e)
			}
			b.WriteString("}")
		} else {
			b.WriteString(it.Lit)
		}
	}
	return b.String()
}

// solveLemmas runs each query (must be unsat) on the portfolio; z3-new decides most of them.
func solveLemmas(qs []lemmaQ, opts solveOpts) []*Obligation {
	var obs []*Obligation
	for _, q := range qs {
		ob := &Obligation{Name: q.name, Kind: "lemma", VCs: []VC{{goal: "false", note: q.note}}}
		ob.Detail = q.smt
		obs = append(obs, ob)
	}
	sem := make(chan struct{}, max(1, opts.par))
	done := make(chan struct{})
	for _, ob := range obs {
		ob := ob
		sem <- struct{}{}
		go func() {
			defer func() { <-sem; done <- struct{}{} }()
			solveLemma(ob, opts)
		}()
	}
	for range obs {
		<-done
	}
	return obs
}
