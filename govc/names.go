package main

// Name snapshot: contracts mention parameters, captured variables and locals of the functions under contract by name.
// A pure rename of such a variable is a harmless edit; to keep the contracts bound across it, the names in force when
// the contracts were written are recorded in /verif/specs/names.json (`govc names` rewrites it from the current tree).
// At load time the snapshot is compared with the current tree: a recorded name that no longer exists is mapped to the
// current variable in the same position (parameters and captured variables by index; locals by ordinal among the locals
// of the same type, and only when the function still has the same number of locals of that type). Anything else —
// a variable added or removed, a type changed — is not treated as a rename and the contract fails to bind as before.

import (
	"encoding/json"
	"fmt"
	"os"
	"path/filepath"
	"sort"
	"strings"

	"golang.org/x/tools/go/ssa"
)

type fnNames struct {
	Sig    string      `json:"sig,omitempty"` // package, receiver type and signature: identifies a renamed function
	CKey   string      `json:"ckey"`          // the key contracts use for this function
	Parent string      `json:"parent,omitempty"`
	Params [][2]string `json:"params"` // [name, type]
	Free   [][2]string `json:"free,omitempty"`
	Locals [][2]string `json:"locals"` // [name, type] in order of declaration
}

func namesOf(fn *ssa.Function) fnNames {
	var n fnNames
	recv := ""
	if r := fn.Signature.Recv(); r != nil {
		recv = r.Type().String()
	}
	n.Sig = fnPkgPath(fn) + "|" + recv + "|" + fn.Signature.String()
	n.CKey = fnKey(fn)
	if fn.Parent() != nil {
		n.Parent = nameKey(fn.Parent())
	}
	for _, p := range fn.Params {
		n.Params = append(n.Params, [2]string{p.Name(), p.Type().String()})
	}
	for _, f := range fn.FreeVars {
		// captured variables are held by reference: record the variable's own type
		n.Free = append(n.Free, [2]string{f.Name(), derefType(f.Type()).String()})
	}
	for _, b := range fn.Blocks {
		for _, in := range b.Instrs {
			if a, ok := in.(*ssa.Alloc); ok && a.Comment != "" && a.Comment != "complit" && a.Comment != "varargs" && !strings.Contains(a.Comment, "$") {
				n.Locals = append(n.Locals, [2]string{a.Comment, a.Type().String()})
			}
		}
	}
	return n
}

// contractFuncs: every function a contract is attached to, plus the function literals nested in them.
func (w *World) contractFuncs() []*ssa.Function {
	seen := map[*ssa.Function]bool{}
	var out []*ssa.Function
	var add func(fn *ssa.Function)
	add = func(fn *ssa.Function) {
		if seen[fn] || fn.Blocks == nil {
			return
		}
		seen[fn] = true
		out = append(out, fn)
		for _, a := range fn.AnonFuncs {
			add(a)
		}
	}
	for fn := range w.allFuncs {
		if !strings.HasPrefix(fnPkgPath(fn), modulePath) {
			continue
		}
		// module functions without a contract are executed in place inside contracted callers: their locals can be
		// named by the callers' invariants too (GenericSyncMap.Iterate's rangeindex, …)
		add(fn)
	}
	sort.Slice(out, func(i, j int) bool { return out[i].String() < out[j].String() })
	return out
}

func cmdNames(args []string) {
	repo := "/repo"
	if len(args) > 0 {
		repo = args[0]
	}
	w, err := loadWorld(repo)
	if err != nil {
		fmt.Println("load:", err)
		os.Exit(2)
	}
	doc := map[string]fnNames{}
	for _, fn := range w.contractFuncs() {
		if fn.TypeParams().Len() > 0 && len(fn.TypeArgs()) == 0 {
			continue
		}
		doc[nameKey(fn)] = namesOf(fn)
	}
	b, _ := json.MarshalIndent(doc, "", " ")
	os.WriteFile(filepath.Join(verifRoot(), "specs", "names.json"), append(b, '\n'), 0o644)
	fmt.Printf("%d functions recorded in specs/names.json\n", len(doc))
}

// nameKey: stable key of a function (generic instantiations share their origin's key).
func nameKey(fn *ssa.Function) string {
	if o := fn.Origin(); o != nil {
		return o.String()
	}
	return fn.String()
}

// loadRenames computes, per function, old name -> current name for pure renames since the snapshot, and the functions
// that were renamed or turned from a function literal into a named function.
func (w *World) loadRenames() {
	w.renames = map[string]map[string]string{}
	w.ckeyAlias = map[string]string{}
	w.snapTypes = map[string]map[string]bool{}
	b, err := os.ReadFile(filepath.Join(verifRoot(), "specs", "names.json"))
	if err != nil {
		return
	}
	var doc map[string]fnNames
	if json.Unmarshal(b, &doc) != nil {
		return
	}
	for _, sn := range doc {
		pkg := sn.Sig
		if i := strings.Index(pkg, "|"); i >= 0 {
			pkg = pkg[:i]
		}
		isParam := map[string]bool{}
		for _, x := range sn.Params {
			isParam[x[0]] = true
		}
		for li, l := range [][][2]string{sn.Params, sn.Free, sn.Locals} {
			for _, x := range l {
				k := pkg + "|" + x[0]
				if w.snapTypes[k] == nil {
					w.snapTypes[k] = map[string]bool{}
				}
				kind := "local:"
				if li == 0 || isParam[x[0]] {
					kind = "param:"
				}
				w.snapTypes[k][kind+strings.TrimPrefix(x[1], "*")] = true
			}
		}
	}
	curFns := map[string]*ssa.Function{}
	for _, fn := range w.contractFuncs() {
		curFns[nameKey(fn)] = fn
	}
	norm := func(t string) string {
		return strings.NewReplacer("<-chan ", "chan ", "chan<- ", "chan ").Replace(t)
	}
	typeBag := func(ls ...[][2]string) string {
		var ts []string
		for _, l := range ls {
			for _, x := range l {
				ts = append(ts, norm(x[1]))
			}
		}
		sort.Strings(ts)
		return strings.Join(ts, ";")
	}
	// localsWithoutParams: NaiveForm copies every parameter into a local of the same name
	localsWithoutParams := func(n fnNames) [][2]string {
		isParam := map[string]bool{}
		for _, p := range n.Params {
			isParam[p[0]] = true
		}
		var out [][2]string
		for _, l := range n.Locals {
			if !isParam[l[0]] {
				out = append(out, l)
			}
		}
		return out
	}
	pkgOf := func(sig string) string {
		if i := strings.Index(sig, "|"); i >= 0 {
			return sig[:i]
		}
		return sig
	}
	var missing []string
	for oldKey := range doc {
		if _, ok := curFns[oldKey]; !ok {
			missing = append(missing, oldKey)
		}
	}
	sort.Strings(missing)
	for _, oldKey := range missing {
		snap := doc[oldKey]
		if snap.Sig == "" || w.contracts[snap.CKey] == nil {
			continue // only functions that carry a contract need to be followed
		}
		var cands []string
		for k, fn := range curFns {
			if _, known := doc[k]; known || fn.Parent() != nil {
				continue
			}
			cn := namesOf(fn)
			if pkgOf(cn.Sig) != pkgOf(snap.Sig) || typeBag(localsWithoutParams(cn)) != typeBag(localsWithoutParams(snap)) {
				continue
			}
			if snap.Parent == "" {
				// renamed top-level function or method: same receiver and signature
				if cn.Sig[strings.Index(cn.Sig, "|"):] == snap.Sig[strings.Index(snap.Sig, "|"):] {
					cands = append(cands, k)
				}
				continue
			}
			// a function literal turned into a named function: what it captured is now passed as parameters
			if typeBag(cn.Params) == typeBag(snap.Params, snap.Free) {
				cands = append(cands, k)
			}
		}
		if len(cands) != 1 {
			continue
		}
		nowFn := curFns[cands[0]]
		w.ckeyAlias[fnKey(nowFn)] = snap.CKey
		ns := snap
		if snap.Parent != "" {
			ns.Params = append(append([][2]string{}, snap.Free...), snap.Params...)
			ns.Free = nil
			// order the recorded names like the current parameters, type by type
			cur := namesOf(nowFn)
			byT := map[string][]string{}
			for _, x := range ns.Params {
				byT[norm(x[1])] = append(byT[norm(x[1])], x[0])
			}
			var re [][2]string
			for _, x := range cur.Params {
				if l := byT[norm(x[1])]; len(l) > 0 {
					re = append(re, [2]string{l[0], x[1]})
					byT[norm(x[1])] = l[1:]
				}
			}
			ns.Params = re
			// the locals recorded for the literal, followed by nothing for the parameter copies (they pair by name)
			ns.Locals = localsWithoutParams(snap)
		}
		doc[cands[0]] = ns
		if snap.Parent == "" {
			for k2, s2 := range doc {
				if strings.HasPrefix(k2, oldKey+"$") {
					doc[cands[0]+k2[len(oldKey):]] = s2
					if fn2, ok := curFns[cands[0]+k2[len(oldKey):]]; ok {
						w.ckeyAlias[fnKey(fn2)] = s2.CKey
					}
				}
			}
		}
	}
	for _, fn := range w.contractFuncs() {
		snap, ok := doc[nameKey(fn)]
		if !ok {
			continue
		}
		cur := namesOf(fn)
		m := map[string]string{}
		curNames := map[string]bool{}
		for _, l := range [][][2]string{cur.Params, cur.Free, cur.Locals} {
			for _, x := range l {
				curNames[x[0]] = true
			}
		}
		pair := func(old, now string) {
			if old != now && !curNames[old] && old != "" && now != "" {
				m[old] = now
			}
		}
		if len(snap.Params) == len(cur.Params) {
			for i := range snap.Params {
				pair(snap.Params[i][0], cur.Params[i][0])
			}
		}
		if len(snap.Free) == len(cur.Free) {
			for i := range snap.Free {
				pair(snap.Free[i][0], cur.Free[i][0])
			}
		}
		byType := func(ls [][2]string) map[string][]string {
			g := map[string][]string{}
			for _, l := range ls {
				g[l[1]] = append(g[l[1]], l[0])
			}
			return g
		}
		sg, cg := byType(localsWithoutParams(snap)), byType(localsWithoutParams(cur))
		snapNames := map[string]bool{}
		for _, l := range [][][2]string{snap.Params, snap.Free, snap.Locals} {
			for _, x := range l {
				snapNames[x[0]] = true
			}
		}
		for t, olds := range sg {
			news := cg[t]
			if len(news) == len(olds) {
				for i := range olds {
					pair(olds[i], news[i])
				}
				continue
			}
			// the number of locals of this type changed (one was hoisted, one was dropped): the names that persisted pair
			// with themselves; the recorded names that are gone pair, in order of appearance, with the names that are new.
			// A wrong guess cannot make a wrong proof go through: an invariant is proved inductive whatever it mentions.
			var gone, fresh []string
			for _, o := range olds {
				if !curNames[o] {
					gone = append(gone, o)
				}
			}
			for _, n := range news {
				if !snapNames[n] {
					fresh = append(fresh, n)
				}
			}
			if len(gone) <= len(fresh) {
				for i := range gone {
					pair(gone[i], fresh[i])
				}
			}
		}
		if len(m) > 0 {
			w.renames[nameKey(fn)] = m
		}
	}
}

// renamed returns the current name of a variable the contracts know as name in fn ("" if there is no rename).
func (w *World) renamed(fn *ssa.Function, name string) string {
	if w.renames == nil || fn == nil {
		return ""
	}
	return w.renames[nameKey(fn)][name]
}

// contractKeyOf: the key under which fn's contract was written (its old key if the function was renamed or was a
// function literal when the contracts were written).
func (w *World) contractKeyOf(fn *ssa.Function) string {
	k := fnKey(fn)
	if old, ok := w.ckeyAlias[k]; ok {
		return old
	}
	return k
}

// contractBaseFn: baseFn under the name the contracts know the function by.
func (w *World) contractBaseFn(fn *ssa.Function) string {
	if len(w.ckeyAlias) == 0 {
		return baseFn(fn)
	}
	top, suffix := fn, ""
	for top.Parent() != nil {
		name := top.Name()
		if i := strings.LastIndex(name, "$"); i >= 0 {
			suffix = name[i:] + suffix
		}
		top = top.Parent()
	}
	if old, ok := w.ckeyAlias[fnKey(top)]; ok {
		base := old
		if i := strings.LastIndex(base, "."); i >= 0 {
			base = base[i+1:]
		}
		if i := strings.Index(base, ")"); i >= 0 && strings.HasPrefix(base, "(") {
			base = base[i+2:]
		}
		return base + suffix
	}
	return baseFn(fn)
}

// uniqueByRecordedType: name is a variable some function of fn's package had when the contracts were written, always
// with one and the same type; if fn now has exactly one named variable of that type, that variable's name is returned.
// Used only for loop invariants that follow a loop into a helper (an invariant is a lemma: it is re-proved as bound).
func (w *World) uniqueByRecordedType(fn *ssa.Function, name string) string {
	ts := w.snapTypes[fnPkgPath(fn)+"|"+name]
	if len(ts) != 1 {
		return ""
	}
	var want string
	for t := range ts {
		want = t
	}
	found := ""
	n := 0
	seen := map[string]bool{}
	isParam := map[string]bool{}
	for _, p := range fn.Params {
		isParam[p.Name()] = true
	}
	for _, b := range fn.Blocks {
		for _, in := range b.Instrs {
			if a, ok := in.(*ssa.Alloc); ok && a.Comment != "" && !seen[a.Comment] {
				kind := "local:"
				if isParam[a.Comment] {
					kind = "param:"
				}
				if kind+strings.TrimPrefix(a.Type().String(), "*") == want {
					seen[a.Comment] = true
					found = a.Comment
					n++
				}
			}
		}
	}
	if n == 1 {
		return found
	}
	return ""
}
