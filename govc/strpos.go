package main

// String-decomposition goals as regular-language emptiness problems ("position lemmas").
//
// Solvers do not prove, by word-equation search, that two decompositions of one string into
// (run of separators)(rest) coincide; the same question over ONE string carrying marker characters at
// the decomposition points is decided by the derivative-based regex engines in well under a second.
// The executor therefore records, per path, the decomposition facts that assumed contracts of the
// strings package and Skolemised specification antecedents provide:
//     decomp(w, [p1..pn])   w == p1 ++ ... ++ pn          (unconditional on this path)
//     items(v, R)           v in R                        (R a literal/class-repetition sequence)
//     notcontains(v, lit), notprefix(v, lit), notsuffix(v, lit)
// and proves a goal  a == b  between two parts of decompositions of a common root by refuting
// "the markers around a and the markers around b sit at different positions". Using only a subset of the
// path's facts is sound (weaker hypotheses); a satisfiable query is reported as a failed obligation.

import (
	"fmt"
	"strings"
)

type strFact struct {
	kind  string // decomp items notcontains notprefix notsuffix
	a     string
	parts []string
	items []rxItem
	lit   string
}

func (st *State) addFact(f strFact) {
	st.facts = append(append([]strFact(nil), st.facts...), f)
}

// flattenConcat splits nested (str.++ ...) terms into their leaves.
func flattenConcat(t string) []string {
	t = strings.TrimSpace(t)
	if strings.HasPrefix(t, "(str.++ ") && strings.HasSuffix(t, ")") {
		var out []string
		for _, p := range splitTop(t[len("(str.++ ") : len(t)-1]) {
			out = append(out, flattenConcat(p)...)
		}
		return out
	}
	return []string{t}
}

func isStrLit(t string) bool { return strings.HasPrefix(t, `"`) }

type posTree struct {
	root   string
	leaves []posLeaf
}

type posLeaf struct {
	term string
	s, e int // marker numbers
}

// buildTrees expands the decompositions of root into leaf sequences; alternative decompositions of the
// same term give alternative trees (one per choice), capped.
func buildTrees(facts []strFact, root string) [][]string {
	decomps := map[string][][]string{}
	for _, f := range facts {
		if f.kind == "decomp" {
			decomps[f.a] = append(decomps[f.a], f.parts)
		}
	}
	var expand func(t string, depth int) [][]string
	expand = func(t string, depth int) [][]string {
		ds := decomps[t]
		if len(ds) == 0 || depth > 6 {
			return [][]string{{t}}
		}
		var out [][]string
		for _, parts := range ds {
			seqs := [][]string{{}}
			for _, p := range parts {
				sub := expand(p, depth+1)
				var next [][]string
				for _, s := range seqs {
					for _, x := range sub {
						next = append(next, append(append([]string(nil), s...), x...))
					}
				}
				seqs = next
				if len(seqs) > 8 {
					seqs = seqs[:8]
				}
			}
			out = append(out, seqs...)
		}
		return out
	}
	var trees [][]string
	for _, parts := range decomps[root] {
		seqs := [][]string{{}}
		for _, p := range parts {
			sub := expand(p, 1)
			var next [][]string
			for _, s := range seqs {
				for _, x := range sub {
					next = append(next, append(append([]string(nil), s...), x...))
				}
			}
			seqs = next
		}
		trees = append(trees, seqs...)
	}
	return trees
}

// leafRegex: the constraints known about leaf term t, with foreign markers skipped (X).
func leafRegex(facts []strFact, t string, X string) string {
	if isStrLit(t) {
		return litSkip(smtStringValue(t), X)
	}
	var rs []string
	for _, f := range facts {
		if f.a != t {
			continue
		}
		switch f.kind {
		case "items":
			rs = append(rs, reCat(itemsSkip(f.items, X), X))
		case "notcontains":
			rs = append(rs, "(re.comp "+reCat("re.all", litSkip(f.lit, X), "re.all")+")")
		case "notprefix":
			rs = append(rs, "(re.comp "+reCat(litSkip(f.lit, X), "re.all")+")")
		case "notsuffix":
			rs = append(rs, "(re.comp "+reCat("re.all", litSkip(f.lit, X), X)+")")
		}
	}
	// a leaf never contains its own tree's markers: restrict to real characters and foreign markers
	base := "(re.* " + reUnion(anyReal, orNone(X)) + ")"
	if X == "" {
		base = "(re.* " + anyReal + ")"
	}
	rs = append(rs, base)
	if len(rs) == 1 {
		return rs[0]
	}
	return "(re.inter " + strings.Join(rs, " ") + ")"
}

func orNone(x string) string {
	if x == "" {
		return "re.none"
	}
	return x
}

// positionLemma returns the SMT script deciding whether parts a and b (leaves of two decompositions of a
// common root on this path) can sit at different positions; "" if the facts do not determine such trees.
func positionLemma(facts []strFact, a, b string) (string, string) {
	// candidate roots: terms that have at least two decompositions or whose trees contain a / b
	roots := map[string]bool{}
	for _, f := range facts {
		if f.kind == "decomp" {
			roots[f.a] = true
		}
	}
	for root := range roots {
		trees := buildTrees(facts, root)
		var ta, tb []string
		for _, t := range trees {
			if ta == nil && containsStr(t, a) {
				ta = t
				continue
			}
			if tb == nil && containsStr(t, b) {
				tb = t
			}
		}
		if ta == nil || tb == nil {
			continue
		}
		// markers: tree A leaves get 2i / 2i+1, tree B leaves continue after
		nA := len(ta)
		var aMarks, bMarks []int
		for i := range ta {
			aMarks = append(aMarks, 2*i, 2*i+1)
		}
		for j := range tb {
			bMarks = append(bMarks, 2*(nA+j), 2*(nA+j)+1)
		}
		if 2*(nA+len(tb)) > 0xE0 {
			return "", "too many parts"
		}
		XA := skipper(bMarks) // inside tree A, tree B's markers may appear anywhere
		XB := skipper(aMarks)
		var ra, rb []string
		ia, ib := -1, -1
		for i, t := range ta {
			if t == a && ia < 0 {
				ia = i
			}
			ra = append(ra, XA, "(str.to_re "+mk(2*i)+")", leafRegex(facts, t, XA), XA, "(str.to_re "+mk(2*i+1)+")")
		}
		ra = append(ra, XA)
		for j, t := range tb {
			if t == b && ib < 0 {
				ib = j
			}
			rb = append(rb, XB, "(str.to_re "+mk(2*(nA+j))+")", leafRegex(facts, t, XB), XB, "(str.to_re "+mk(2*(nA+j)+1)+")")
		}
		rb = append(rb, XB)
		allM := skipper(append(append([]int(nil), aMarks...), bMarks...))
		adj := func(m1, m2 int) string {
			x, y := "(str.to_re "+mk(m1)+")", "(str.to_re "+mk(m2)+")"
			return reCat("re.all", reUnion(reCat(x, allM, y), reCat(y, allM, x)), "re.all")
		}
		sameStart := adj(2*ia, 2*(nA+ib))
		sameEnd := adj(2*ia+1, 2*(nA+ib)+1)
		diff := "(re.union (re.comp " + sameStart + ") (re.comp " + sameEnd + "))"
		cs := []string{"(str.in_re y " + reCat(ra...) + ")", "(str.in_re y " + reCat(rb...) + ")", "(str.in_re y " + diff + ")"}
		// constraints known about the root itself (all markers skipped)
		for _, f := range facts {
			if f.a != root {
				continue
			}
			switch f.kind {
			case "notcontains":
				cs = append(cs, "(str.in_re y (re.comp "+reCat("re.all", litSkip(f.lit, allM), "re.all")+"))")
			case "notprefix":
				cs = append(cs, "(str.in_re y (re.comp "+reCat(allM, litSkip(f.lit, allM), "re.all")+"))")
			case "notsuffix":
				cs = append(cs, "(str.in_re y (re.comp "+reCat("re.all", litSkip(f.lit, allM), allM)+"))")
			case "items":
				cs = append(cs, "(str.in_re y "+reCat(itemsSkip(f.items, allM), allM)+")")
			}
		}
		script := lemmaScript(cs)
		desc := fmt.Sprintf("root %s; decomposition A = %v; decomposition B = %v", root, ta, tb)
		return script, desc
	}
	return "", "no common root decomposition"
}

func containsStr(xs []string, x string) bool {
	for _, y := range xs {
		if y == x {
			return true
		}
	}
	return false
}

// ---- Skolemised proof of   forall x :: A ==> B   at function exit ------------------------------------

// assumeSpec assumes a specification formula, registering string facts from its conjuncts.
func (ex *Exec) assumeSpec(st *State, n *node, e *env) {
	switch {
	case n.op == "binary" && n.name == "&&":
		ex.assumeSpec(st, n.args[0], e)
		ex.assumeSpec(st, n.args[1], e)
		return
	case n.op == "call" && n.args[0].op == "ident":
		if p, ok := ex.w.preds[n.args[0].name]; ok && len(p.params) == len(n.args)-1 {
			ne := &env{vars: map[string]Val{}}
			for i, pn := range p.params {
				ne.vars[pn] = ex.eval(st, n.args[i+1], e)
			}
			ex.assumeSpec(st, p.body, ne)
			return
		}
	}
	st.assume(ex.evalBool(st, n, e))
	ex.registerSpecFact(st, n, e, false)
}

func (ex *Exec) registerSpecFact(st *State, n *node, e *env, neg bool) {
	switch {
	case n.op == "unary" && n.name == "!":
		ex.registerSpecFact(st, n.args[0], e, !neg)
	case n.op == "binary" && n.name == "==" && !neg:
		l, r := ex.eval(st, n.args[0], e), ex.eval(st, n.args[1], e)
		if l.K != KTerm || r.K != KTerm {
			return
		}
		lp, rp := flattenConcat(l.T), flattenConcat(r.T)
		if len(rp) > 1 && len(lp) == 1 {
			st.addFact(strFact{kind: "decomp", a: l.T, parts: rp})
		} else if len(lp) > 1 && len(rp) == 1 {
			st.addFact(strFact{kind: "decomp", a: r.T, parts: lp})
		}
	case n.op == "call" && n.args[0].op == "ident":
		args := n.args[1:]
		switch n.args[0].name {
		case "inre":
			if neg || len(args) != 2 || args[1].op != "lit-str" {
				return
			}
			ri := newRegexInfo("spec", args[1].name, 0)
			if ri.subsetOK {
				st.addFact(strFact{kind: "items", a: ex.eval(st, args[0], e).T, items: ri.items})
			}
		case "prefixof":
			if neg && len(args) == 2 && args[0].op == "lit-str" {
				st.addFact(strFact{kind: "notprefix", a: ex.eval(st, args[1], e).T, lit: args[0].name})
			}
		case "suffixof":
			if neg && len(args) == 2 && args[0].op == "lit-str" {
				st.addFact(strFact{kind: "notsuffix", a: ex.eval(st, args[1], e).T, lit: args[0].name})
			}
		case "contains":
			if neg && len(args) == 2 && args[1].op == "lit-str" {
				st.addFact(strFact{kind: "notcontains", a: ex.eval(st, args[0], e).T, lit: args[1].name})
			}
		}
	}
}

// proveSpec records the obligations for goal n, splitting it structurally: conjunctions into separate
// obligations, implications by assuming the antecedent, universal quantifiers by Skolemisation, predicate
// applications by expansion. String equalities between parts of registered decompositions become position lemmas.
func (ex *Exec) proveSpec(st *State, n *node, e *env, name, kind, src string) {
	switch {
	case n.op == "binary" && n.name == "&&":
		ex.proveSpec(st, n.args[0], e, name+".1", kind, src)
		ex.proveSpec(st, n.args[1], e, name+".2", kind, src)
		return
	case n.op == "binary" && n.name == "==>":
		s2 := st.clone()
		ex.assumeSpec(s2, n.args[0], e)
		ex.proveSpec(s2, n.args[1], e, name, kind, src)
		return
	case n.op == "forall":
		ne := &env{vars: map[string]Val{}, parent: e}
		for _, qv := range n.vars {
			sort := map[string]string{"int": "Int", "string": "String", "bool": "Bool", "ref": "Int"}[qv.typ]
			if sort == "" {
				specFail("unknown quantifier type %s", qv.typ)
			}
			c := ex.fresh("sk_"+qv.name, sort)
			ne.vars[qv.name] = Val{K: KTerm, T: c, Typ: sortType(sort)}
		}
		ex.proveSpec(st, n.args[0], ne, name, kind, src)
		return
	case n.op == "call" && n.args[0].op == "ident":
		if p, ok := ex.w.preds[n.args[0].name]; ok && len(p.params) == len(n.args)-1 {
			ne := &env{vars: map[string]Val{}}
			for i, pn := range p.params {
				ne.vars[pn] = ex.eval(st, n.args[i+1], e)
			}
			ex.proveSpec(st, p.body, ne, name+":"+n.args[0].name, kind, src)
			return
		}
	}
	if n.op == "binary" && n.name == "==" && len(st.facts) > 0 {
		l, r := ex.eval(st, n.args[0], e), ex.eval(st, n.args[1], e)
		if l.K == KTerm && r.K == KTerm && l.Typ != nil && scalarSort(l.Typ) == "String" {
			if script, desc := positionLemma(st.facts, l.T, r.T); script != "" {
				if st.dry || st.dead {
					return
				}
				ob := ex.obl(name+"~pos", "strpos")
				ob.VCs = append(ob.VCs, VC{goal: "false", note: src + "   [position lemma: " + desc + "]", trace: append([]string(nil), st.trace...)})
				ob.scripts = append(ob.scripts, script)
				ob.inputTerms = ex.inputTerms
				return
			}
		}
	}
	ex.record(st, name, kind, ex.evalBool(st, n, e), src)
}

// proveEnsures handles one ensures clause at exit.
func (ex *Exec) proveEnsures(st *State, en clause, e *env) {
	ex.proveSpec(st, en.expr, e, ex.rootName+"/ensures:"+en.label, "ensures", en.src)
}
