package main

// SMT-LIB emission and the solver portfolio (z3-new, z3, cvc5).

import (
	"bytes"
	"context"
	"fmt"
	"os"
	"os/exec"
	"path/filepath"
	"runtime"
	"sort"
	"strconv"
	"strings"
	"sync"
	"time"
)

type solverSpec struct {
	name string
	argv func(file string, timeoutS int) []string
}

var solvers = []solverSpec{
	{"z3-new", func(f string, t int) []string { return []string{"z3-new", fmt.Sprintf("-T:%d", t), f} }},
	{"z3", func(f string, t int) []string { return []string{"z3", fmt.Sprintf("-T:%d", t), f} }},
	{"cvc5", func(f string, t int) []string {
		return []string{"cvc5", "--incremental", "--strings-exp", fmt.Sprintf("--tlimit=%d", t*1000), f}
	}},
}

// smtScript: declarations and function declarations shared by all VCs of one verification unit.
type smtScript struct {
	decls     map[string]string
	declOrder []string
	funs      map[string]string // name -> "(args) ret"
	funOrder  []string
	axioms    []string
	defs      []string // raw define-fun lines
}

func symbolsIn(text string, into map[string]bool) {
	i := 0
	n := len(text)
	for i < n {
		c := text[i]
		if c == '"' {
			i++
			for i < n {
				if text[i] == '"' {
					if i+1 < n && text[i+1] == '"' {
						i += 2
						continue
					}
					break
				}
				i++
			}
			i++
			continue
		}
		if c == '(' || c == ')' || c == ' ' || c == '\n' || c == '\t' {
			i++
			continue
		}
		j := i
		for j < n && text[j] != '(' && text[j] != ')' && text[j] != ' ' && text[j] != '\n' && text[j] != '"' {
			j++
		}
		into[text[i:j]] = true
		i = j
	}
}

func quoteSym(s string) string {
	for _, c := range s {
		if !(c >= 'a' && c <= 'z' || c >= 'A' && c <= 'Z' || c >= '0' && c <= '9' || strings.ContainsRune("_!.$-", c)) {
			return "|" + s + "|"
		}
	}
	return s
}

// render writes the SMT-LIB text for an obligation. Symbols containing characters outside the
// simple-symbol set were sanitised at creation, so names can be used verbatim.
func (sc *smtScript) render(ob *Obligation, withModel bool, only int) string {
	return sc.renderSel(ob, withModel, only, nil, false)
}

// renderSel renders the VCs whose index (among non-trivial VCs) is in sel (nil = all); with relaxed, the
// quantified path assumptions are dropped (fewer hypotheses: an unsat answer is still a proof).
func (sc *smtScript) renderSel(ob *Obligation, withModel bool, only int, sel map[int]bool, relaxed bool) string {
	var body bytes.Buffer
	used := map[string]bool{}
	k := -1
	for i, vc := range ob.VCs {
		if vc.goal == "true" {
			continue
		}
		k++
		if only >= 0 && i != only {
			continue
		}
		if sel != nil && !sel[k] {
			continue
		}
		body.WriteString("(push 1)\n")
		for _, p := range vc.pc {
			if relaxed && (strings.Contains(p, "(forall ") || strings.Contains(p, "(exists ")) {
				continue
			}
			if satCheck(ob) && strings.Contains(p, ":pattern") {
				continue // engine-generated frame/ghost axioms: consistent by construction, and they only make the sat check slow
			}
			body.WriteString("(assert " + p + ")\n")
		}
		if satCheck(ob) {
			// satisfiability of the assumptions themselves
		} else {
			body.WriteString("(assert (not " + vc.goal + "))\n")
		}
		body.WriteString("(check-sat)\n")
		if withModel {
			body.WriteString("(get-model)\n")
		}
		body.WriteString("(pop 1)\n")
	}
	text := body.String()
	symbolsIn(text, used)
	for _, a := range sc.axioms {
		symbolsIn(a, used)
	}
	var out bytes.Buffer
	out.WriteString("(set-option :produce-models true)\n(set-logic ALL)\n")
	for _, n := range sc.funOrder {
		if used[n] {
			sig := sc.funs[n]
			i := strings.LastIndex(sig, ")")
			out.WriteString("(declare-fun " + n + " " + sig[:i+1] + " " + strings.TrimSpace(sig[i+1:]) + ")\n")
		}
	}
	for _, n := range sc.declOrder {
		if used[n] {
			out.WriteString("(declare-fun " + n + " () " + sc.decls[n] + ")\n")
		}
	}
	for _, d := range sc.defs {
		out.WriteString(d + "\n")
	}
	for _, a := range sc.axioms {
		out.WriteString("(assert " + a + ")\n")
	}
	out.WriteString(text)
	return out.String()
}

type solveOpts struct {
	timeoutS int
	workDir  string
	all      bool // run every solver to completion and cross-check (thorough)
	par      int
	noRetry  bool
}

type vcResult struct {
	status string // unsat sat unknown
	solver string
}

func parseStatuses(out string) []string {
	var res []string
	for _, l := range strings.Split(out, "\n") {
		l = strings.TrimSpace(l)
		switch l {
		case "sat", "unsat", "unknown", "timeout":
			if l == "timeout" {
				l = "unknown"
			}
			res = append(res, l)
		}
	}
	return res
}

func runSolver(ctx context.Context, sp solverSpec, file string, timeoutS int) (string, float64) {
	argv := sp.argv(file, timeoutS)
	cctx, cancel := context.WithTimeout(ctx, time.Duration(timeoutS+5)*time.Second)
	defer cancel()
	cmd := exec.CommandContext(cctx, argv[0], argv[1:]...)
	var buf bytes.Buffer
	cmd.Stdout = &buf
	cmd.Stderr = &buf
	t0 := time.Now()
	_ = cmd.Run()
	return buf.String(), time.Since(t0).Seconds()
}

// solveObligation discharges one obligation with the portfolio.
func satCheck(ob *Obligation) bool { return ob.Kind == "vacuity" || ob.Kind == "cover" }

func solveObligation(sc *smtScript, ob *Obligation, opts solveOpts) {
	nontrivial := 0
	for _, vc := range ob.VCs {
		if vc.goal != "true" {
			nontrivial++
		}
	}
	if ob.Kind == "strpos" {
		// every script must be unsat
		ob.Status, ob.Solver = "discharged", ""
		used := map[string]bool{}
		var details []string
		for i, sc := range ob.scripts {
			tmp := &Obligation{Name: fmt.Sprintf("%s.path%d", ob.Name, i), Kind: "lemma", VCs: []VC{ob.VCs[i]}, Detail: sc}
			solveLemma(tmp, opts)
			ob.TimeS += tmp.TimeS
			ob.SmtSize += tmp.SmtSize
			used[tmp.Solver] = true
			details = append(details, tmp.Detail)
			if tmp.Status != "discharged" {
				ob.Status = tmp.Status
				ob.Model = tmp.Model
				ob.Trace = ob.VCs[i].trace
				if line, ok := lemmaModelLine(tmp.Model); ok {
					plain, _ := splitMarked(line)
					ob.Inputs = map[string]string{"root": smtStr(plain)}
				}
				ob.Detail = fmt.Sprintf("path %d (%s): %s", i, ob.VCs[i].note, tmp.Detail)
				break
			}
		}
		delete(used, "")
		ob.Solver = strings.Join(sortedKeys(used), "+")
		if ob.Status == "discharged" {
			ob.Detail = strings.Join(details, " ; ")
		}
		return
	}
	if ob.Kind == "subset" {
		ob.Status, ob.Solver = "failed", "structural"
		ob.Detail = "outside the verified subset: " + ob.VCs[0].note
		return
	}
	allFalseNoPC := true
	for _, vc := range ob.VCs {
		if vc.goal != "false" || len(vc.pc) > 0 {
			allFalseNoPC = false
		}
	}
	if ob.Kind == "structural" {
		if allFalseNoPC && len(ob.VCs) > 0 {
			ob.Status, ob.Solver = "failed", "structural"
			ob.Detail = ob.VCs[0].note
		} else {
			ob.Status, ob.Solver = "discharged", "structural"
		}
		return
	}
	if nontrivial == 0 {
		ob.Status, ob.Solver = "discharged", "trivial"
		return
	}
	// Pass 1: the quantifier-free core of each VC (quantified path assumptions dropped). Fewer hypotheses, so an
	// unsat answer is a proof; it is fast and independent of quantifier-instantiation heuristics.
	pre := map[int]string{}
	hasQuant := false
	for _, vc := range ob.VCs {
		for _, p := range vc.pc {
			if strings.Contains(p, "(forall ") || strings.Contains(p, "(exists ") {
				hasQuant = true
			}
		}
	}
	if false && hasQuant && ob.Kind != "vacuity" {
		rtext := sc.renderSel(ob, false, -1, nil, true)
		rfile := filepath.Join(opts.workDir, sanitizeFile(ob.Name)+".core.smt2")
		if os.WriteFile(rfile, []byte(rtext), 0o644) == nil {
			type rr struct {
				name string
				st   []string
			}
			rc := make(chan rr, 2)
			rctx, rcancel := context.WithCancel(context.Background())
			n := 0
			for _, sp := range solvers {
				if sp.name == "z3" {
					continue
				}
				n++
				sp := sp
				go func() {
					out, _ := runSolver(rctx, sp, rfile, 6)
					rc <- rr{sp.name, parseStatuses(out)}
				}()
			}
			for i := 0; i < n; i++ {
				r := <-rc
				for j, st := range r.st {
					if st == "unsat" && pre[j] == "" {
						pre[j] = r.name
					}
				}
				if len(pre) == nontrivial {
					break
				}
			}
			rcancel()
			os.Remove(rfile)
		}
	}
	if len(pre) == nontrivial {
		used := map[string]bool{}
		for _, v := range pre {
			used[v] = true
		}
		ob.Status, ob.Solver = "discharged", strings.Join(sortedKeys(used), "+")
		ob.Detail = "quantifier-free core"
		return
	}
	var sel map[int]bool
	var idxMap []int // position in the rendered script -> index among non-trivial VCs
	if len(pre) > 0 {
		sel = map[int]bool{}
	}
	for k := 0; k < nontrivial; k++ {
		if _, done := pre[k]; !done {
			if sel != nil {
				sel[k] = true
			}
			idxMap = append(idxMap, k)
		}
	}
	text := sc.renderSel(ob, false, -1, sel, false)
	ob.SmtSize = len(text)
	if len(text) > 4<<20 {
		ob.Status, ob.Solver, ob.Detail = "error", "none", fmt.Sprintf("VC too large (%d bytes)", len(text))
		return
	}
	file := filepath.Join(opts.workDir, sanitizeFile(ob.Name)+".smt2")
	if err := os.WriteFile(file, []byte(text), 0o644); err != nil {
		ob.Status, ob.Detail = "error", err.Error()
		return
	}
	if satCheck(ob) && opts.timeoutS > 4 {
		opts.timeoutS = 4
	}
	ctx, cancel := context.WithCancel(context.Background())
	defer cancel()
	type sres struct {
		name     string
		statuses []string
		secs     float64
		raw      string
	}
	ch := make(chan sres, len(solvers))
	for _, sp := range solvers {
		sp := sp
		go func() {
			out, secs := runSolver(ctx, sp, file, opts.timeoutS)
			ch <- sres{sp.name, parseStatuses(out), secs, out}
		}()
	}
	best := make([]vcResult, nontrivial)
	for i := range best {
		best[i].status = "unknown"
		if v, ok := pre[i]; ok {
			best[i] = vcResult{"unsat", v}
		}
	}
	var raws []string
	t0 := time.Now()
	decided := false
	crossChecked := false
	_ = crossChecked
	for range solvers {
		r := <-ch
		raws = append(raws, fmt.Sprintf("[%s %.2fs] %s", r.name, r.secs, strings.Join(r.statuses, ",")))
		for pos, s := range r.statuses {
			if pos >= len(idxMap) {
				break
			}
			i := idxMap[pos]
			if s == "unknown" {
				continue
			}
			if best[i].status == "unknown" {
				best[i] = vcResult{s, r.name}
			} else if best[i].status != s {
				ob.Status, ob.Solver = "error", r.name+"/"+best[i].solver
				ob.Detail = fmt.Sprintf("solver disagreement on VC %d: %s says %s, %s says %s", i, best[i].solver, best[i].status, r.name, s)
				cancel()
				return
			}
		}
		if ob.Kind == "vacuity" && !decided {
			for _, b := range best {
				if b.status == "sat" {
					decided = true
					cancel()
				}
			}
		} else if ob.Kind == "cover" && !decided {
			all := true
			for _, b := range best {
				if b.status == "unknown" {
					all = false
				}
			}
			if all {
				decided = true
				cancel()
			}
		} else if opts.all && !decided {
			// cross-check mode: stop as soon as two different solvers have answered every VC definitely (they agree,
			// otherwise the disagreement branch above has already returned)
			full := 0
			for _, rr := range raws {
				if !strings.Contains(rr, "unknown") && !strings.HasSuffix(strings.TrimSpace(rr), "]") {
					full++
				}
			}
			complete := true
			for _, b := range best {
				if b.status == "unknown" {
					complete = false
				}
			}
			if complete && full >= 2 {
				decided = true
				crossChecked = true
				cancel()
			}
		} else if !opts.all && !decided {
			allUnsat, anySat := true, false
			for _, b := range best {
				if b.status != "unsat" {
					allUnsat = false
				}
				if b.status == "sat" {
					anySat = true
				}
			}
			if allUnsat || anySat {
				decided = true
				cancel()
			}
		}
	}
	ob.TimeS = time.Since(t0).Seconds()
	ob.Detail = strings.Join(raws, " ; ")
	used := map[string]bool{}
	if ob.Kind == "cover" {
		// VCs come in pairs (assumptions before the call / after assuming the callee's postcondition, or before a loop /
		// after assuming its invariants): a satisfiable state must not be turned into an unsatisfiable one
		ob.Status = "discharged"
		// triples: state before the call / after assuming the contract / quantifier-free part of the state before.
		// Failure: the state after is refuted while the state before is not, and the state before (or at least its
		// quantifier-free part: the quantified assumptions are frame axioms and invariants) has a model.
		for i := 0; i+2 < len(best); i += 3 {
			used[best[i].solver], used[best[i+1].solver], used[best[i+2].solver] = true, true, true
			if best[i+1].status == "unsat" && best[i].status != "unsat" && (best[i].status == "sat" || best[i+2].status == "sat") {
				ob.Status = "failed"
				ob.Detail = "reachable state becomes unreachable once the contract/invariant is assumed (contradictory or unsound specification): " + ob.Detail
			}
		}
		delete(used, "")
		ob.Solver = strings.Join(sortedKeys(used), "+")
		return
	}
	if ob.Kind == "vacuity" {
		// at least one path must be satisfiable (or undecided); all-unsat means vacuous assumptions
		allUnsat := true
		for _, b := range best {
			if b.status != "unsat" {
				allUnsat = false
			}
			used[b.solver] = true
		}
		if allUnsat {
			ob.Status = "failed"
			ob.Detail = "assumptions are unsatisfiable on every path (vacuous contract): " + ob.Detail
		} else {
			ob.Status = "discharged"
		}
		ob.Solver = strings.Join(sortedKeys(used), "+")
		return
	}
	allUnsat := true
	satIdx := -1
	for i, b := range best {
		if b.status != "unsat" {
			allUnsat = false
		}
		if b.status == "sat" && satIdx < 0 {
			satIdx = i
		}
		if b.solver != "" {
			used[b.solver] = true
		}
	}
	ob.Solver = strings.Join(sortedKeys(used), "+")
	switch {
	case allUnsat:
		ob.Status = "discharged"
		if os.Getenv("GOVC_KEEP") == "" {
			os.Remove(file)
		}
	case satIdx >= 0:
		ob.Status = "failed"
		ob.Model = modelFor(sc, ob, satIdx, best[satIdx].solver, opts)
		ob.Inputs = parseGetValue(ob.Model, ob.inputTerms)
		k2 := 0
		for _, vc := range ob.VCs {
			if vc.goal == "true" {
				continue
			}
			if k2 == satIdx {
				ob.Trace = vc.trace
			}
			k2++
		}
		// note of the failing path
		k := 0
		for _, vc := range ob.VCs {
			if vc.goal == "true" {
				continue
			}
			if k == satIdx {
				ob.Detail = "counterexample on path " + fmt.Sprint(satIdx) + " (" + vc.note + "): " + ob.Detail
			}
			k++
		}
	default:
		// Pass 2 for the VCs no solver decided: their quantifier-free core (quantified path assumptions dropped).
		// Fewer hypotheses, so unsat is still a proof; it does not depend on instantiation heuristics.
		if hasQuant {
			und := map[int]bool{}
			var pos []int
			for i, b := range best {
				if b.status == "unknown" {
					und[i] = true
					pos = append(pos, i)
				}
			}
			rtext := sc.renderSel(ob, false, -1, und, true)
			rfile := filepath.Join(opts.workDir, sanitizeFile(ob.Name)+".core.smt2")
			if os.WriteFile(rfile, []byte(rtext), 0o644) == nil {
				type coreRes struct {
					name string
					sts  []string
					secs float64
				}
				cch := make(chan coreRes, len(solvers))
				nc := 0
				for _, sp := range solvers {
					if sp.name == "z3" {
						continue
					}
					nc++
					go func(sp solverSpec) {
						out, secs := runSolver(context.Background(), sp, rfile, 8)
						cch <- coreRes{sp.name, parseStatuses(out), secs}
					}(sp)
				}
				for ; nc > 0; nc-- {
					r := <-cch
					ob.Detail += fmt.Sprintf(" ; core[%s %.2fs] %s", r.name, r.secs, strings.Join(r.sts, ","))
					for j, st := range r.sts {
						if j < len(pos) && st == "unsat" {
							best[pos[j]] = vcResult{"unsat", r.name + "(core)"}
						}
					}
				}
				os.Remove(rfile)
			}
			still := false
			for _, b := range best {
				if b.status != "unsat" {
					still = true
				}
			}
			if !still {
				ob.Status = "discharged"
				ob.Solver = "core"
				if os.Getenv("GOVC_KEEP") == "" {
					os.Remove(file)
				}
				return
			}
		}
		ob.Status = "failed"
		ob.Detail = "undischarged (no solver decided): " + ob.Detail
		// candidate inputs for a replay: a model of the path with the quantified assumptions dropped (an
		// over-approximation; only a replay on the real code can confirm it)
		for i, b := range best {
			if !opts.noRetry {
				break // a retry with a longer budget may follow: candidate inputs are computed at the end (solveAll)
			}
			if b.status == "unknown" {
				if m := relaxedModel(sc, ob, i, opts); m != "" {
					ob.Model = m
					ob.Inputs = parseGetValue(m, ob.inputTerms)
					k2 := 0
					for _, vc := range ob.VCs {
						if vc.goal == "true" {
							continue
						}
						if k2 == i {
							ob.Trace = vc.trace
						}
						k2++
					}
					ob.Detail += " ; candidate inputs from the quantifier-free relaxation of path " + fmt.Sprint(i)
				}
				break
			}
		}
	}
}

// relaxedModel drops quantified assertions from one VC and asks for values of the inputs.
func relaxedModel(sc *smtScript, ob *Obligation, idx int, opts solveOpts) string {
	k := 0
	only := -1
	for i, vc := range ob.VCs {
		if vc.goal == "true" {
			continue
		}
		if k == idx {
			only = i
		}
		k++
	}
	if only < 0 {
		return ""
	}
	vc := ob.VCs[only]
	var pc []string
	for _, p := range vc.pc {
		if strings.Contains(p, "(forall ") || strings.Contains(p, "(exists ") {
			continue
		}
		pc = append(pc, p)
	}
	goal := vc.goal
	if strings.Contains(goal, "(forall ") || strings.Contains(goal, "(exists ") {
		return ""
	}
	tmp := &Obligation{Name: ob.Name + ".relaxed", Kind: ob.Kind, VCs: []VC{{pc: pc, goal: goal}}, inputTerms: ob.inputTerms}
	o2 := opts
	if o2.timeoutS > 8 {
		o2.timeoutS = 8
	}
	out := modelFor(sc, tmp, 0, "z3-new", o2)
	return out
}

func modelFor(sc *smtScript, ob *Obligation, idx int, solver string, opts solveOpts) string {
	// map idx among non-trivial VCs back to VC index
	k := 0
	only := -1
	for i, vc := range ob.VCs {
		if vc.goal == "true" {
			continue
		}
		if k == idx {
			only = i
		}
		k++
	}
	text := sc.render(ob, false, only)
	// ask for the values of the function's inputs instead of the whole model
	var terms []string
	used := map[string]bool{}
	symbolsIn(text, used)
	for _, k := range sortedKeys(ob.inputTerms) {
		t := ob.inputTerms[k]
		ok := true
		need := map[string]bool{}
		symbolsIn(t, need)
		for sym := range need {
			if _, declared := sc.decls[sym]; declared && !used[sym] {
				ok = false
			}
		}
		if ok {
			terms = append(terms, t)
		}
	}
	if len(terms) > 0 {
		text = strings.Replace(text, "(check-sat)\n", "(check-sat)\n(get-value ("+strings.Join(terms, " ")+"))\n", 1)
	}
	file := filepath.Join(opts.workDir, sanitizeFile(ob.Name)+".model.smt2")
	os.WriteFile(file, []byte(text), 0o644)
	order := []string{solver, "z3-new", "z3"}
	for _, name := range order {
		for _, sp := range solvers {
			if sp.name != name {
				continue
			}
			out, _ := runSolver(context.Background(), sp, file, opts.timeoutS)
			if strings.HasPrefix(strings.TrimSpace(out), "sat") {
				if len(out) > 200000 {
					out = out[:200000]
				}
				return out
			}
		}
	}
	return ""
}

func sanitizeFile(s string) string {
	var b strings.Builder
	for _, c := range s {
		if c >= 'a' && c <= 'z' || c >= 'A' && c <= 'Z' || c >= '0' && c <= '9' || c == '-' || c == '_' || c == '.' {
			b.WriteRune(c)
		} else {
			b.WriteByte('_')
		}
	}
	r := b.String()
	if len(r) > 150 {
		r = r[:150]
	}
	return r
}

// solveAll discharges obligations in parallel.
func solveAll(sc *smtScript, obs []*Obligation, opts solveOpts) {
	for _, ob := range obs {
		if ob.script == nil {
			ob.script = sc
		}
	}
	if opts.par <= 0 {
		opts.par = 5
	}
	sem := make(chan struct{}, opts.par)
	var wg sync.WaitGroup
	for _, ob := range obs {
		wg.Add(1)
		sem <- struct{}{}
		go func(ob *Obligation) {
			defer wg.Done()
			defer func() { <-sem }()
			solveObligation(ob.script, ob, opts)
		}(ob)
	}
	wg.Wait()
	// An obligation that no solver decided inside the budget (as opposed to one with a counterexample) is retried once,
	// two at a time, with three times the budget: a busy machine must not turn a proof into an alarm.
	if !opts.noRetry {
		var again []*Obligation
		for _, ob := range obs {
			if ob.Status == "failed" && strings.HasPrefix(ob.Detail, "undischarged (no solver decided)") && ob.Kind != "strpos" {
				again = append(again, ob)
			}
		}
		// no retry when the verdict is already settled by a counterexample elsewhere in this batch, or when so many
		// obligations are undecided that a busy machine is not the likely cause
		settled := false
		for _, ob := range obs {
			if ob.Status == "failed" && !strings.HasPrefix(ob.Detail, "undischarged (no solver decided)") && !satCheck(ob) {
				settled = true
			}
		}
		if lf := loadFactor(); len(again) > 0 && len(again) <= 12 && !settled && lf > 0.75 {
			o2 := opts
			// wall-clock budgets shrink with the share of a CPU a solver gets: scale the second try with the load
			mult := int(2*lf + 0.5)
			if mult < 2 {
				mult = 2
			}
			if mult > 6 {
				mult = 6
			}
			o2.timeoutS = opts.timeoutS * mult
			if lim := max(90, opts.timeoutS*2); o2.timeoutS > lim {
				o2.timeoutS = lim
			}
			o2.par = 3
			o2.noRetry = true
			for _, ob := range again {
				first := ob.Detail
				ob.Status, ob.Detail, ob.Model, ob.Inputs = "", "", "", nil
				_ = first
			}
			solveAll(sc, again, o2)
			for _, ob := range again {
				if ob.Status == "discharged" {
					ob.Detail = "decided on the retry with a longer budget; " + ob.Detail
				}
			}
		}
	}
	// candidate inputs (for the replay) of obligations that stay undecided and were not retried
	if !opts.noRetry {
		n := 0
		for _, ob := range obs {
			if ob.Status == "failed" && strings.HasPrefix(ob.Detail, "undischarged (no solver decided)") && ob.Model == "" && ob.Kind != "strpos" && n < 4 {
				n++
				o3 := opts
				o3.noRetry = true
				nt := 0
				for _, vc := range ob.VCs {
					if vc.goal != "true" {
						nt++
					}
				}
				for i := 0; i < nt && i < 2; i++ {
					if m := relaxedModel(ob.script, ob, i, o3); m != "" {
						ob.Model = m
						ob.Inputs = parseGetValue(m, ob.inputTerms)
						ob.Detail += " ; candidate inputs from the quantifier-free relaxation of path " + fmt.Sprint(i)
						break
					}
				}
			}
		}
	}
	sort.SliceStable(obs, func(i, j int) bool { return obs[i].Name < obs[j].Name })
}

// solveLemma: a closed script with one check-sat that must be unsat.
func solveLemma(ob *Obligation, opts solveOpts) {
	text := ob.Detail
	ob.Detail = ""
	if text == "" {
		ob.Status, ob.Solver = "failed", "structural"
		ob.Detail = ob.VCs[0].note
		return
	}
	ob.SmtSize = len(text)
	file := filepath.Join(opts.workDir, sanitizeFile(ob.Name)+".smt2")
	os.WriteFile(file, []byte(text), 0o644)
	ctx, cancel := context.WithCancel(context.Background())
	defer cancel()
	type sres struct {
		name string
		st   []string
		secs float64
	}
	ch := make(chan sres, len(solvers))
	for _, sp := range solvers {
		sp := sp
		go func() {
			out, secs := runSolver(ctx, sp, file, opts.timeoutS)
			ch <- sres{sp.name, parseStatuses(out), secs}
		}()
	}
	t0 := time.Now()
	var raws []string
	verdict, by := "unknown", ""
	for range solvers {
		r := <-ch
		raws = append(raws, fmt.Sprintf("[%s %.2fs] %s", r.name, r.secs, strings.Join(r.st, ",")))
		if len(r.st) > 0 && r.st[0] != "unknown" {
			if verdict == "unknown" {
				verdict, by = r.st[0], r.name
				if !opts.all {
					cancel()
				}
			} else if verdict != r.st[0] {
				ob.Status, ob.Solver = "error", by+"/"+r.name
				ob.Detail = "solver disagreement: " + strings.Join(raws, " ; ")
				return
			}
		}
	}
	ob.TimeS = time.Since(t0).Seconds()
	ob.Solver = by
	ob.Detail = strings.Join(raws, " ; ")
	switch verdict {
	case "unsat":
		ob.Status = "discharged"
		if os.Getenv("GOVC_KEEP") == "" {
			os.Remove(file)
		}
	case "sat":
		ob.Status = "failed"
		mf := filepath.Join(opts.workDir, sanitizeFile(ob.Name)+".model.smt2")
		os.WriteFile(mf, []byte(text+"(get-value (y))\n"), 0o644)
		for _, sp := range solvers {
			if sp.name == by {
				out, _ := runSolver(context.Background(), sp, mf, opts.timeoutS)
				ob.Model = out
			}
		}
		ob.Detail = "counterexample line found: " + ob.Detail
	default:
		ob.Status = "failed"
		ob.Detail = "undischarged (no solver decided): " + ob.Detail
	}
}

// parseGetValue maps input names to the values printed by (get-value (...)).
func parseGetValue(out string, inputTerms map[string]string) map[string]string {
	i := strings.Index(out, "((")
	if i < 0 {
		return nil
	}
	pairs := sexprPairs(out[i:])
	res := map[string]string{}
	for name, t := range inputTerms {
		for _, p := range pairs {
			if normSpace(p[0]) == normSpace(t) {
				res[name] = p[1]
			}
		}
	}
	return res
}

func normSpace(s string) string { return strings.Join(strings.Fields(s), " ") }

// sexprPairs parses "((a b) (c d) ...)" into pairs of raw texts.
func sexprPairs(s string) [][2]string {
	var out [][2]string
	s = strings.TrimSpace(s)
	if !strings.HasPrefix(s, "(") {
		return nil
	}
	i := 1
	n := len(s)
	readOne := func() string {
		for i < n && (s[i] == ' ' || s[i] == '\n' || s[i] == '\t' || s[i] == '\r') {
			i++
		}
		if i >= n {
			return ""
		}
		start := i
		switch s[i] {
		case '(':
			d := 0
			for i < n {
				c := s[i]
				if c == '"' {
					i++
					for i < n {
						if s[i] == '"' {
							if i+1 < n && s[i+1] == '"' {
								i += 2
								continue
							}
							break
						}
						i++
					}
				} else if c == '(' {
					d++
				} else if c == ')' {
					d--
					if d == 0 {
						i++
						return s[start:i]
					}
				}
				i++
			}
			return s[start:]
		case '"':
			i++
			for i < n {
				if s[i] == '"' {
					if i+1 < n && s[i+1] == '"' {
						i += 2
						continue
					}
					i++
					return s[start:i]
				}
				i++
			}
			return s[start:]
		default:
			for i < n && s[i] != ' ' && s[i] != ')' && s[i] != '\n' {
				i++
			}
			return s[start:i]
		}
	}
	for i < n {
		for i < n && (s[i] == ' ' || s[i] == '\n' || s[i] == '\t' || s[i] == '\r') {
			i++
		}
		if i >= n || s[i] == ')' {
			break
		}
		if s[i] != '(' {
			break
		}
		i++ // into pair
		a := readOne()
		b := readOne()
		for i < n && s[i] != ')' {
			i++
		}
		i++
		out = append(out, [2]string{a, b})
	}
	return out
}

// machineBusy: the 1-minute load average exceeds three quarters of the CPUs — solver budgets measured in wall-clock
// seconds are then not comparable with an idle machine's, and an undecided obligation deserves a second, longer try.
func machineBusy() bool { return loadFactor() > 0.75 }

// loadFactor: 1-minute load average per CPU (1 when it cannot be read).
func loadFactor() float64 {
	b, err := os.ReadFile("/proc/loadavg")
	if err != nil {
		return 1
	}
	f := strings.Fields(string(b))
	if len(f) == 0 {
		return 1
	}
	l, err := strconv.ParseFloat(f[0], 64)
	if err != nil {
		return 1
	}
	return l / float64(runtime.NumCPU())
}
