package main

// Calls: dispatch (assumed contract / contract / inline), builtins, channels, select, go.

import (
	"fmt"
	"go/types"
	"strconv"
	"strings"

	"golang.org/x/tools/go/ssa"
)

const maxInlineDepth = 8

func shortFn(fn *ssa.Function) string {
	if fn == nil {
		return "<nil>"
	}
	if fn.Parent() != nil {
		// closure: parent$N
		name := fn.Name()
		if i := strings.LastIndex(name, "$"); i >= 0 {
			return shortFn(fn.Parent()) + name[i:]
		}
		return shortFn(fn.Parent()) + "$" + name
	}
	if recv := fn.Signature.Recv(); recv != nil {
		name := fn.Name()
		if i := strings.Index(name, "["); i >= 0 {
			name = name[:i]
		}
		return "(" + recvName(recv.Type()) + ")." + name
	}
	if o := fn.Origin(); o != nil && o != fn {
		return o.Name()
	}
	return fn.Name()
}

func recvName(t types.Type) string {
	star := ""
	if p, ok := t.(*types.Pointer); ok {
		star = "*"
		t = p.Elem()
	}
	if n, ok := types.Unalias(t).(*types.Named); ok {
		return star + n.Obj().Name()
	}
	return star + t.String()
}

// baseFn is the function name used in loop keys: method or function name without receiver.
func baseFn(fn *ssa.Function) string {
	if fn.Parent() != nil {
		name := fn.Name()
		if i := strings.LastIndex(name, "$"); i >= 0 {
			return baseFn(fn.Parent()) + name[i:]
		}
	}
	name := fn.Name()
	if i := strings.Index(name, "["); i >= 0 {
		name = name[:i]
	}
	return name
}

func fnPkgPath(fn *ssa.Function) string {
	for f := fn; f != nil; f = f.Parent() {
		if f.Pkg != nil {
			return f.Pkg.Pkg.Path()
		}
		if o := f.Origin(); o != nil && o.Pkg != nil {
			return o.Pkg.Pkg.Path()
		}
	}
	if fn.Object() != nil && fn.Object().Pkg() != nil {
		return fn.Object().Pkg().Path()
	}
	return ""
}

func fnKey(fn *ssa.Function) string { return fnPkgPath(fn) + "." + shortFn(fn) }

// callSite names a call instruction by its ordinal among the calls of its function.
func callSite(in ssa.Instruction) string {
	fn := in.Parent()
	n := 0
	for _, b := range fn.Blocks {
		for _, x := range b.Instrs {
			switch x.(type) {
			case *ssa.Call, *ssa.Defer, *ssa.Go:
				n++
			}
			if x == in {
				return fmt.Sprintf("%s.call%d", shortFn(fn), n)
			}
		}
	}
	return shortFn(fn)
}

func (ex *Exec) call(st *State, in ssa.Instruction, c *ssa.CallCommon, k func(*State, Val)) {
	site := callSite(in)
	var args []Val
	if c.IsInvoke() {
		recv := st.get(c.Value)
		for _, a := range c.Args {
			args = append(args, st.get(a))
		}
		ex.invoke(st, site, c, recv, args, k)
		return
	}
	fnv := st.get(c.Value)
	for _, a := range c.Args {
		args = append(args, st.get(a))
	}
	ex.callVal(st, site, c, fnv, args, k)
}

func (ex *Exec) callVal(st *State, site string, c *ssa.CallCommon, fnv Val, args []Val, k func(*State, Val)) {
	if c != nil && c.IsInvoke() {
		ex.invoke(st, site, c, fnv, args, k)
		return
	}
	if b, ok := fnv.Meta.(*ssa.Builtin); ok {
		k(st, ex.builtin(st, b, args, c))
		return
	}
	if fnv.K != KFunc {
		if ft := ex.w.funcTypeContract(fnv.Typ); ft != nil {
			ex.callFuncType(st, site, ft, fnv, args, k)
			return
		}
		if fo, ok := fnv.Meta.(guardOrigin); ok && fo.root != nil {
			if n, ok := types.Unalias(fo.root).(*types.Named); ok && n.Obj().Pkg() != nil {
				if ct := ex.w.contracts[n.Obj().Pkg().Path()+".fieldfunc:"+n.Obj().Name()+"."+fo.path]; ct != nil {
					ex.record(st, ex.rootName+"/nilfunc@"+site, "safety", not(eq(fnv.T, "0")), "call of a nil function value")
					ex.callBySignature(st, site, ct, fnv.Typ.Underlying().(*types.Signature), fnv, args, k, false)
					return
				}
			}
		}
		panic(subsetErr{"call through a symbolic function value at " + site})
	}
	if fnv.Fn == nil && fnv.Meta == "noop" {
		k(st, Val{K: KUnit})
		return
	}
	if fnv.Fn == nil {
		ex.record(st, ex.rootName+"/nilfunc@"+site, "safety", "false", "call of nil function")
		return
	}
	ex.callFn(st, site, fnv.Fn, args, fnv.Binds, k)
}

func (ex *Exec) callFn(st *State, site string, fn *ssa.Function, args []Val, binds []Val, k func(*State, Val)) {
	full := fn.String()
	if o := fn.Origin(); o != nil {
		full = o.String()
	}
	// 1. assumed contracts of external functions
	if h := ex.w.externFor(fn, full); h != nil {
		ex.externs[full] = true
		h(ex, st, &callCtx{site: site, fn: fn, args: args, k: k})
		return
	}
	// 2. contract of a repository function (modular call)
	if ct := ex.w.contractFor(fn); ct != nil && fn != ex.root && !ct.inline && fn.Parent() == nil {
		// In lock-invariant (concurrency) mode a callee that acquires a lock is a new linearisation point: its contract,
		// stated over atlock(), would be read against the caller's acquisition. Such callees are executed in place.
		if !(ex.mode.concurrency && ex.w.mayLock(fn) && fn.Blocks != nil && ex.w.inlinable(fn)) {
			ex.applyContract(st, site, fn, ct, args, k)
			return
		}
	}
	// 3. inline
	if fn.Blocks != nil && ex.w.inlinable(fn) {
		if len(st.frames) > maxInlineDepth {
			panic(subsetErr{"inline depth exceeded at " + shortFn(fn)})
		}
		for _, fr := range st.frames {
			if fr.fn == fn {
				panic(subsetErr{"recursive call of " + shortFn(fn)})
			}
		}
		if fn.Parent() == nil {
			ex.inlined[fnKey(fn)] = true
		}
		ex.pushFrame(st, fn, args, binds, k)
		ex.runInner(st, fn.Blocks[0], 0)
		return
	}
	panic(subsetErr{"unmodelled call to " + full})
}

// invoke: call through an interface.
func (ex *Exec) invoke(st *State, site string, c *ssa.CallCommon, recv Val, args []Val, k func(*State, Val)) {
	it := c.Value.Type()
	key := types.TypeString(it, nil) + "." + c.Method.Name()
	if _, ok := ex.w.ifaceExterns[key]; !ok {
		key = types.TypeString(types.Unalias(it), nil) + "." + c.Method.Name()
	}
	if h, ok := ex.w.ifaceExterns[key]; ok {
		ex.externs["iface:"+key] = true
		h(ex, st, &callCtx{site: site, args: append([]Val{recv}, args...), k: k, method: c.Method})
		return
	}
	// contract of the interface method (`ifacemethod Iface.Method` in the interface's package)
	if n, ok := types.Unalias(it).(*types.Named); ok && n.Obj().Pkg() != nil {
		if ct := ex.w.contracts[n.Obj().Pkg().Path()+".iface:"+n.Obj().Name()+"."+c.Method.Name()]; ct != nil {
			ex.nilCheckTerm(st, recv.T, site)
			sig := c.Method.Type().(*types.Signature)
			ex.callBySignature(st, site, ct, sig, recv, args, k, false)
			return
		}
	}
	// unique implementation inside the module?
	if impl := ex.w.uniqueImpl(it, c.Method); impl != nil {
		ex.nilCheckTerm(st, recv.T, site)
		// receiver: interface ref is the pointer itself for pointer receivers
		rv := recv
		rv.Typ = impl.Signature.Recv().Type()
		ex.callFn(st, site, impl, append([]Val{rv}, args...), nil, k)
		return
	}
	panic(subsetErr{"unmodelled interface call " + key})
}

func (ex *Exec) nilCheckTerm(st *State, ref, site string) {
	ex.record(st, ex.rootName+"/nil@"+site, "safety", not(eq(ref, "0")), "nil receiver at "+site)
}

// ---------------------------------------------------------------------------------------------
// Contract application at a call site

func (ex *Exec) bindParams(fn *ssa.Function, args []Val) *env {
	e := &env{vars: map[string]Val{}, fn: fn}
	for i, p := range fn.Params {
		if i < len(args) {
			e.vars[p.Name()] = args[i]
		}
	}
	ex.aliasVars(fn, e.vars)
	return e
}

// aliasVars adds, for every variable of fn that was renamed since the contracts were written, the old name as well.
func (ex *Exec) aliasVars(fn *ssa.Function, vars map[string]Val) {
	if ex.w.renames == nil {
		return
	}
	for old, now := range ex.w.renames[nameKey(fn)] {
		if v, ok := vars[now]; ok {
			if _, clash := vars[old]; !clash {
				vars[old] = v
			}
		}
	}
}

func (ex *Exec) applyContract(st *State, site string, fn *ssa.Function, ct *Contract, args []Val, k func(*State, Val)) {
	e := ex.bindParams(fn, args)
	name := shortFn(fn)
	ex.checkCallbackArgs(st, site, fn, args)
	for _, r := range ct.requires {
		g := ex.evalBool(st, r.expr, e)
		ex.record(st, fmt.Sprintf("%s/pre:%s@%s:%s", ex.rootName, name, site, r.label), "requires", g, r.src)
	}
	ex.assertAt(st, name, e.vars)
	if !st.dry && ex.contract != nil && (ex.contract.blocksCancellable || ex.contract.blocksNever) && ex.w.mayBlock(fn) && !ct.blocksNever {
		// a callee that can block: fine if it is itself verified to be cancellable (for the context it is given)
		ex.blocking = append(ex.blocking, blockingOp{Site: site, Kind: "call", Cancellable: ct.blocksCancellable, Note: "call to " + name + ", which may block", Chan: name})
	}
	pre := st.snapshotHeap()
	prePC := append([]string(nil), st.pc...)
	// havoc the frame
	ex.havocModifies(st, ct, e, pre)
	// result
	var res Val
	rt := fn.Signature.Results()
	switch rt.Len() {
	case 0:
		res = Val{K: KUnit}
	case 1:
		res = st.freshVal("ret_"+fn.Name(), rt.At(0).Type())
	default:
		res = st.freshVal("ret_"+fn.Name(), rt)
	}
	e.result = &res
	ex.bindNamedResults(fn, e, res)
	saveEntry := ex.entryHeap
	ex.entryHeap = pre // old() inside the callee's ensures refers to the call's pre-state
	for _, en := range ct.ensures {
		st.assume(ex.evalBool(st, en.expr, e))
	}
	ex.entryHeap = saveEntry
	ex.usedContracts[fnKey(fn)] = true
	if !st.dry && st.quantDepth == 0 && len(ct.ensures) > 0 {
		// cover: assuming the callee's postcondition must not make a reachable state unreachable (at most two paths per site)
		if ex.coverSeen == nil {
			ex.coverSeen = map[string]int{}
		}
		ckey := name + "@" + site
		if ex.coverSeen[ckey] < 2 {
			ex.coverSeen[ckey]++
			ob := ex.obl(fmt.Sprintf("%s/cover:%s", ex.rootName, ckey), "cover")
			var relaxed []string
			for _, p := range prePC {
				if !strings.Contains(p, "(forall ") && !strings.Contains(p, "(exists ") {
					relaxed = append(relaxed, p)
				}
			}
			ob.VCs = append(ob.VCs, VC{pc: prePC, goal: "false", note: "state before the call"},
				VC{pc: append([]string(nil), st.pc...), goal: "false", note: "state after assuming the contract of " + name},
				VC{pc: relaxed, goal: "false", note: "quantifier-free part of the state before the call"})
		}
	}
	k(st, res)
}

func (ex *Exec) bindNamedResults(fn *ssa.Function, e *env, res Val) {
	rt := fn.Signature.Results()
	for i := 0; i < rt.Len(); i++ {
		nm := rt.At(i).Name()
		var v Val
		if rt.Len() == 1 {
			v = res
		} else {
			v = res.Fs[i]
		}
		if nm != "" && nm != "_" {
			e.vars[nm] = v
		}
		e.vars["result"+strconv.Itoa(i)] = v
	}
}

func (ex *Exec) siteOrdinal(name string) int {
	ex.siteCtr[name]++
	return ex.siteCtr[name]
}

func (st *State) snapshotHeap() map[string]string {
	h := make(map[string]string, len(st.heap))
	for k, v := range st.heap {
		h[k] = v
	}
	return h
}

// modTarget: one item of a modifies clause after evaluation.
type modTarget struct {
	region string // region name (exact) or prefix ending in '*'
	ref    string // object reference term; "" = whole region
	sort   string // sort of the region when known (so that it can be materialised)
}

func (ex *Exec) modTargets(st *State, ct *Contract, e *env) []modTarget {
	var out []modTarget
	for _, m := range ct.modifies {
		out = append(out, ex.evalMod(st, m, e)...)
	}
	if !ct.hasMod {
		// no modifies clause: the callee may modify the whole program heap and the output/channel/counter ghosts
		for _, g := range []string{"F!*", "M!*", "S!*", "B!*", "V!*", "G!out*", "G!wfailed", "G!writtenat", "G!ctr*", "G!sent*", "G!recv*", "G!closed", "G!cancelled", "G!g_*", "G!cb*",
			"G!rd*", "G!push*", "G!msgline", "G!lastrecv", "G!bytestr", "G!pushedat", "G!sentstamp", "G!reassstream", "G!filesize", "G!ctxerr", "G!tokens"} {
			out = append(out, modTarget{region: g})
		}
	}
	// allocation and write-once regions may always grow
	out = append(out, modTarget{region: "A"}, modTarget{region: "I!*"}, modTarget{region: "G!dyn"}, modTarget{region: "G!wraps"}, modTarget{region: "G!clock"}, modTarget{region: "G!jsonof"}, modTarget{region: "G!split*"}, modTarget{region: "G!snap!*"}, modTarget{region: "G!bytestr"})
	return out
}

func (ex *Exec) evalMod(st *State, m *node, e *env) []modTarget {
	switch m.op {
	case "ident":
		switch m.name {
		case "out":
			return []modTarget{{region: "G!out*"}, {region: "G!wfailed"}, {region: "G!writtenat"}}
		case "nothing":
			return nil
		case "ctr":
			return []modTarget{{region: "G!ctr*"}}
		case "cb":
			return []modTarget{{region: "G!cb*"}}
		case "pushes":
			return []modTarget{{region: "G!push*"}, {region: "G!msgline"}, {region: "G!lastrecv"}}
		case "readers":
			return []modTarget{{region: "G!rd*"}}
		case "cancels":
			return []modTarget{{region: "G!cancelled"}}
		case "heap":
			return []modTarget{{region: "F!*"}, {region: "M!*"}, {region: "S!*"}, {region: "B!*"}, {region: "G!g_*"}, {region: "V!*"}}
		case "chans":
			return []modTarget{{region: "G!sent*"}, {region: "G!recv*"}, {region: "G!closed"}, {region: "G!cancelled"}, {region: "G!tokens"}}
		}
		if strings.HasPrefix(m.name, "g_") {
			return []modTarget{{region: "G!" + m.name}}
		}
	case "lit-str":
		return []modTarget{{region: m.name}}
	case "sel":
		base := ex.eval(st, m.args[0], e)
		if base.K == KTerm && base.Typ != nil {
			et := derefType(base.Typ)
			if isStructT(et) {
				var out []modTarget
				for _, lf := range leaves(et) {
					if m.name == "*" || lf.path == m.name || strings.HasPrefix(lf.path, m.name+".") {
						out = append(out, modTarget{region: fieldRegion(et, lf.path), ref: base.T, sort: arr("Int", lf.sort)})
					}
				}
				if len(out) == 0 {
					specFail("modifies: no field %s in %s", m.name, et)
				}
				return out
			}
		}
	case "call":
		if m.args[0].op == "ident" {
			switch m.args[0].name {
			case "sendson":
				// sendson(ch): the send trace, length and token count of channel ch only
				v := ex.eval(st, m.args[1], e)
				out := []modTarget{{region: "G!sentlen", ref: v.T, sort: arr("Int", "Int")}, {region: "G!tokens", ref: v.T, sort: arr("Int", "Int")},
					{region: "G!sentstamp", ref: v.T, sort: arr("Int", arr("Int", "Int"))}}
				for _, r := range sortedKeys(ex.regSorts) {
					if strings.HasPrefix(r, "G!sent!") {
						out = append(out, modTarget{region: r, ref: v.T})
					}
				}
				if v.Typ != nil {
					if ct, ok := v.Typ.Underlying().(*types.Chan); ok {
						for _, lf := range leaves(ct.Elem()) {
							r, rs := sentRegion(ct.Elem(), lf)
							out = append(out, modTarget{region: r, ref: v.T, sort: rs})
						}
					}
				}
				return out
			case "mapof":
				v := ex.eval(st, m.args[1], e)
				mt, ok := v.Typ.Underlying().(*types.Map)
				if !ok {
					specFail("modifies mapof(): not a map")
				}
				dom, ds := mapRegions(mt)
				out := []modTarget{{region: dom, ref: v.T, sort: ds}}
				for _, lf := range leaves(mt.Elem()) {
					r, rs := mapValRegion(mt, lf)
					out = append(out, modTarget{region: r, ref: v.T, sort: rs})
				}
				return out
			}
		}
	}
	specFail("unsupported modifies item %s", m.src)
	return nil
}

func matchRegion(pat, name string) bool {
	if strings.HasSuffix(pat, "*") {
		return strings.HasPrefix(name, pat[:len(pat)-1])
	}
	return pat == name
}

// havocModifies havocs what the callee may modify; everything else (of objects allocated before
// the call) keeps its value.
func (ex *Exec) havocModifies(st *State, ct *Contract, e *env, pre map[string]string) {
	if ct.hasMod && len(ct.modifies) == 0 && !ct.allocates {
		// `modifies nothing` without `allocates`: a pure function as far as the caller can observe (objects it may
		// allocate internally are unreachable from the caller's state)
		return
	}
	targets := ex.modTargets(st, ct, e)
	a0 := st.region("A", arr("Int", "Bool"))
	// materialise regions named in targets even if untouched so far
	for _, t := range targets {
		if t.sort != "" {
			st.region(t.region, t.sort)
		}
	}
	for _, r := range sortedKeys(ex.regSorts) {
		var refs []string
		whole := false
		hit := false
		for _, t := range targets {
			if matchRegion(t.region, r) {
				hit = true
				if t.ref == "" {
					whole = true
				} else {
					refs = append(refs, t.ref)
				}
			}
		}
		sort := ex.regSorts[r]
		isObjArray := strings.HasPrefix(sort, "(Array Int ")
		if !hit {
			// fields of objects allocated by the callee are unconstrained; pre-existing objects keep values
			if isObjArray && (strings.HasPrefix(r, "F!") || strings.HasPrefix(r, "M!") || strings.HasPrefix(r, "S!") || strings.HasPrefix(r, "B!")) && ct.allocatesRegion(r) {
				old := st.region(r, sort)
				st.havocRegion(r)
				nw := st.heap[r]
				st.assume("(forall ((r Int)) (! (=> (select " + a0 + " r) (= (select " + nw + " r) (select " + old + " r))) :pattern ((select " + nw + " r))))")
			}
			continue
		}
		old := st.region(r, sort)
		st.havocRegion(r)
		nw := st.heap[r]
		if !whole && isObjArray {
			var ne []string
			for _, ref := range refs {
				ne = append(ne, not(eq("r", ref)))
			}
			st.assume("(forall ((r Int)) (! (=> " + and(append([]string{"(select " + a0 + " r)"}, ne...)...) + " (= (select " + nw + " r) (select " + old + " r))) :pattern ((select " + nw + " r))))")
		}
		if r == "G!out#len" || r == "G!clock" {
			st.assume("(>= " + nw + " " + old + ")")
		}
		if strings.HasPrefix(r, "G!out!") {
			ol := pre["G!out#len"]
			if ol == "" {
				ol = st.withHeap(pre).region("G!out#len", "Int")
			}
			st.assume("(forall ((i Int)) (! (=> (and (<= 0 i) (< i " + ol + ")) (= (select " + nw + " i) (select " + old + " i))) :pattern ((select " + nw + " i))))")
		}
		if r == "G!writtenat" {
			ol := pre["G!out#len"]
			if ol == "" {
				ol = st.withHeap(pre).region("G!out#len", "Int")
			}
			// events already written keep their position
			st.assume("(forall ((r Int)) (! (=> (and (> (select " + old + " r) 0) (<= (select " + old + " r) " + ol + ")) (= (select " + nw + " r) (select " + old + " r))) :pattern ((select " + nw + " r))))")
		}
		if strings.HasPrefix(r, "I!") || r == "G!dyn" || r == "G!wraps" || r == "G!jsonof" || strings.HasPrefix(r, "G!g_ev") {
			st.assume("(forall ((r Int)) (! (=> (select " + a0 + " r) (= (select " + nw + " r) (select " + old + " r))) :pattern ((select " + nw + " r))))")
		}
	}
}

// ---------------------------------------------------------------------------------------------
// Builtins

func (ex *Exec) builtin(st *State, b *ssa.Builtin, args []Val, c *ssa.CallCommon) Val {
	switch b.Name() {
	case "len":
		x := args[0]
		switch {
		case x.K == KSlice:
			if _, lit := isIntLit(x.Fs[2].T); !lit {
				st.assume("(<= " + x.Fs[2].T + " 4611686018427387904)")
			}
			return x.Fs[2]
		case x.K == KArray:
			return term(strconv.Itoa(len(x.Fs)), tInt)
		case x.K == KTerm && scalarSort(x.Typ) == "String":
			// assumption: lengths of strings are below 2^62 (listed in the evidence)
			st.assume("(<= (str.len " + x.T + ") 4611686018427387904)")
			return term("(str.len "+x.T+")", tInt)
		case x.K == KTerm:
			if mt, ok := x.Typ.Underlying().(*types.Map); ok {
				// cardinality is not modelled: a fresh non-negative number tied to emptiness only
				n := ex.fresh("maplen", "Int")
				st.assume("(>= " + n + " 0)")
				st.assume("(<= " + n + " 4611686018427387904)")
				_ = mt
				return term(n, tInt)
			}
			if _, ok := x.Typ.Underlying().(*types.Chan); ok {
				n := ex.fresh("chanlen", "Int")
				st.assume("(>= " + n + " 0)")
				return term(n, tInt)
			}
		}
	case "cap":
		x := args[0]
		if x.K == KSlice {
			n := ex.fresh("cap", "Int")
			st.assume("(>= " + n + " " + x.Fs[2].T + ")")
			return term(n, tInt)
		}
	case "append":
		s := args[0]
		rest := args[1]
		typ := c.Args[0].Type()
		if rest.K == KArray {
			return ex.appendSlice(st, s, rest.Fs, typ)
		}
		if rest.K == KSlice && rest.Fs[2].T == "0" {
			return s
		}
		if rest.K == KSlice {
			if l, ok := isIntLit(rest.Fs[2].T); ok && l <= 8 {
				var es []Val
				for i := int64(0); i < l; i++ {
					es = append(es, st.sliceGet(rest, smtInt(i)))
				}
				return ex.appendSlice(st, s, es, typ)
			}
		}
		panic(subsetErr{"append of a symbolic-length slice"})
	case "delete":
		m := args[0]
		mt := c.Args[0].Type().Underlying().(*types.Map)
		ex.guardCheckMapVal(st, m, true, c)
		// delete on a nil map is a no-op
		st.mapDelete(mt, m.T, ex.asTerm(args[1]))
		return Val{K: KUnit}
	case "close":
		ch := args[0].T
		ex.assertAt(st, "close", map[string]Val{"ch": args[0]})
		a := st.region("G!closed", arr("Int", "Bool"))
		ex.record(st, ex.rootName+"/close-closed@"+shortFn(st.top().fn), "safety", and(not(eq(ch, "0")), not(sel(a, ch))), "close of nil or closed channel")
		st.setRegion("G!closed", arr("Int", "Bool"), store(a, ch, "true"))
		return Val{K: KUnit}
	case "ssa:wrapnilchk":
		return args[0]
	case "ssa:deferstack":
		return term("0", tInt)
	case "print", "println":
		return Val{K: KUnit}
	case "min", "max":
		a, b := args[0].T, args[1].T
		if c.Value.Name() == "min" {
			return term(ite("(<= "+a+" "+b+")", a, b), args[0].Typ)
		}
		return term(ite("(>= "+a+" "+b+")", a, b), args[0].Typ)
	}
	panic(subsetErr{"builtin " + b.Name()})
}

// ---------------------------------------------------------------------------------------------
// Globals

func globalRegion(g *ssa.Global) string {
	return "V!" + g.Pkg.Pkg.Name() + "." + g.Name()
}

func (ex *Exec) loadGlobal(st *State, g *ssa.Global, path []int) Val {
	et := g.Type().Underlying().(*types.Pointer).Elem()
	if len(path) > 0 {
		panic(subsetErr{"field of global struct"})
	}
	if info, ok := ex.w.regexGlobals[g]; ok {
		v := term(strconv.Itoa(info.id), et)
		v.Meta = info
		return v
	}
	if ev, ok := ex.w.errGlobals[g]; ok {
		return term(strconv.Itoa(ev), et)
	}
	s := scalarSort(et)
	if s == "" {
		if isSliceT(et) {
			if tab := ex.w.staticTableOf(g); tab != nil {
				return ex.staticTableVal(st, g, tab)
			}
			return st.freshVal("global_"+g.Name(), et) // contents of package-level slices are not tracked
		}
		panic(subsetErr{"composite global " + g.Name()})
	}
	v := term(st.region(globalRegion(g), s), et)
	ex.assumeValFacts(st, v)
	if ex.w.nonNilGlobals[g.Pkg.Pkg.Path()+"."+g.Name()] {
		st.assume("(> " + v.T + " 0)")
	}
	return v
}

func (ex *Exec) storeGlobal(st *State, g *ssa.Global, path []int, v Val) {
	et := g.Type().Underlying().(*types.Pointer).Elem()
	s := scalarSort(et)
	if s == "" || len(path) > 0 {
		panic(subsetErr{"store to composite global " + g.Name()})
	}
	st.setRegion(globalRegion(g), s, ex.asTerm(v))
}

// ---------------------------------------------------------------------------------------------
// Channels, select, go

type blockingOp struct {
	Site        string
	Kind        string // send recv select
	Cancellable bool   // has a <-ctx.Done() arm / default
	Note        string
	Chan        string
}

func chanElemRegions(et types.Type, ch string) []leaf { return leaves(et) }

func sentRegion(et types.Type, lf leaf) (string, string) {
	name := "G!sent!" + typeName(et)
	if lf.path != "" {
		name += "!" + lf.path
	}
	return name, arr("Int", arr("Int", lf.sort))
}

// appendSent records v as sent on channel ch.
func (ex *Exec) appendSent(st *State, ch Val, v Val) {
	ct := ch.Typ.Underlying().(*types.Chan)
	et := ct.Elem()
	if inv := ex.w.chanInv(et); inv != nil {
		e := &env{vars: map[string]Val{"v": v}}
		ex.record(st, fmt.Sprintf("%s/chaninv:%s@%s", ex.rootName, typeName(et), shortFn(st.top().fn)), "chaninv", ex.evalBool(st, inv, e), "message invariant of channels carrying "+typeName(et))
	}
	ln := sel(st.region("G!sentlen", arr("Int", "Int")), ch.T)
	ts := flatten(v, ex)
	for i, lf := range leaves(et) {
		reg, s := sentRegion(et, lf)
		a := st.region(reg, s)
		st.setRegion(reg, s, store(a, ch.T, store(sel(a, ch.T), ln, ts[i])))
	}
	// stamp with the number of events written so far (ordering claims: write-before-send)
	a := st.region("G!sentstamp", arr("Int", arr("Int", "Int")))
	st.setRegion("G!sentstamp", arr("Int", arr("Int", "Int")), store(a, ch.T, store(sel(a, ch.T), ln, st.region("G!out#len", "Int"))))
	sl := st.region("G!sentlen", arr("Int", "Int"))
	st.setRegion("G!sentlen", arr("Int", "Int"), store(sl, ch.T, "(+ "+ln+" 1)"))
	tk := st.region("G!tokens", arr("Int", "Int"))
	st.setRegion("G!tokens", arr("Int", "Int"), store(tk, ch.T, "(+ "+sel(tk, ch.T)+" 1)"))
}

func (ex *Exec) ghostField(st *State, ge ghostElem, name string) Val {
	if ge.seq == "sent" {
		if name == "stamp" {
			return term(sel(sel(st.region("G!sentstamp", arr("Int", arr("Int", "Int"))), ge.ch), ge.idx), tInt)
		}
		if ge.et == nil {
			specFail("sent(): channel element type unknown")
		}
		for _, lf := range leaves(ge.et) {
			if lf.path == name || (lf.path == "" && name == "value") {
				reg, s := sentRegion(ge.et, lf)
				return term(sel(sel(st.region(reg, s), ge.ch), ge.idx), lf.typ)
			}
		}
		specFail("sent(): no field %s in %s", name, ge.et)
	}
	if ge.seq == "out" {
		return ex.outField(st, ge.idx, name)
	}
	if ge.seq == "cb" {
		switch name {
		case "ret":
			return term(sel(st.region("G!cb!ret", arr("Int", "Int")), ge.idx), types.Universe.Lookup("error").Type())
		case "fn":
			return Val{K: KTerm, T: sel(st.region("G!cb!fn", arr("Int", "Int")), ge.idx)}
		case "ctx":
			return Val{K: KTerm, T: sel(st.region("G!cb!arg0$Int", arr("Int", "Int")), ge.idx)}
		case "line":
			return term(sel(st.region("G!cb!arg1$String", arr("Int", "String")), ge.idx), tString)
		}
	}
	specFail("ghost field %s", name)
	return Val{}
}

func sortType(s string) types.Type {
	switch s {
	case "Int":
		return tInt
	case "Bool":
		return tBool
	case "String":
		return tString
	}
	return nil
}

func (ex *Exec) sendInstr(st *State, in *ssa.Send) {
	ch := st.get(in.Chan)
	v := st.get(in.X)
	free := false
	if strings.HasPrefix(ch.T, "chan!") {
		// a channel made by this function: the send cannot block if there is provably room
		capT := sel(st.region("G!chancap", arr("Int", "Int")), ch.T)
		pend := "(- " + sel(st.region("G!sentlen", arr("Int", "Int")), ch.T) + " " + sel(st.region("G!recvlen", arr("Int", "Int")), ch.T) + ")"
		ex.record(st, fmt.Sprintf("%s/blocks:send-room@%s", ex.rootName, siteOf(in)), "blocks", "(< "+pend+" "+capT+")", "bare send on a channel made by this function: room must be provable")
		free = true
	}
	if !st.dry {
		ex.blocking = append(ex.blocking, blockingOp{Site: siteOf(in), Kind: "send", Cancellable: free, Note: "bare channel send", Chan: in.Chan.Name()})
	}
	ex.appendSent(st, ch, v)
	ex.syncPoint(st)
}

// provablyFree: the send cannot block because the channel was made in this function with a constant
// capacity larger than the number of sends recorded so far on this path.
func (ex *Exec) provablyFree(st *State, ch Val) bool {
	if !strings.HasPrefix(ch.T, "chan!") {
		return false
	}
	// capacity and sentlen must be literal along this path
	capT := ex.litRegionAt(st, "G!chancap", ch.T)
	snT := ex.litRegionAt(st, "G!sentlen", ch.T)
	c, ok1 := isIntLit(capT)
	s, ok2 := isIntLit(snT)
	return ok1 && ok2 && s < c
}

// litRegionAt searches the path condition for the latest definitional store of region[name] at ref.
func (ex *Exec) litRegionAt(st *State, region, ref string) string {
	cur := st.heap[region]
	for depth := 0; depth < 64 && cur != ""; depth++ {
		def := ""
		pref := "(= " + cur + " (store "
		for i := len(st.pc) - 1; i >= 0; i-- {
			if strings.HasPrefix(st.pc[i], pref) {
				def = st.pc[i]
				break
			}
		}
		if def == "" {
			return ""
		}
		// (= cur (store prev ref val))
		body := def[len(pref) : len(def)-2]
		parts := splitTop(body)
		if len(parts) != 3 {
			return ""
		}
		if parts[1] == ref {
			return parts[2]
		}
		cur = parts[0]
	}
	return ""
}

func splitTop(s string) []string {
	var out []string
	d := 0
	start := 0
	inStr := false
	for i := 0; i < len(s); i++ {
		c := s[i]
		if inStr {
			if c == '"' {
				inStr = false
			}
			continue
		}
		switch c {
		case '"':
			inStr = true
		case '(':
			d++
		case ')':
			d--
		case ' ':
			if d == 0 {
				if i > start {
					out = append(out, s[start:i])
				}
				start = i + 1
			}
		}
	}
	if start < len(s) {
		out = append(out, s[start:])
	}
	return out
}

func (ex *Exec) recv(st *State, ch Val, in *ssa.UnOp) Val {
	ct := ch.Typ.Underlying().(*types.Chan)
	isDone := ch.Meta == "ctx.Done"
	if !st.dry {
		ex.blocking = append(ex.blocking, blockingOp{Site: siteOf(in), Kind: "recv", Cancellable: isDone, Note: "bare channel receive", Chan: in.X.Name()})
	}
	ex.syncPoint(st)
	if isDone {
		st.markCancelled(ch)
	}
	v := ex.recvValue(st, ch, ct.Elem())
	if in.CommaOk {
		return Val{K: KTuple, Fs: []Val{v, term(ex.fresh("recvok", "Bool"), tBool)}}
	}
	return v
}

func (st *State) markCancelled(ch Val) {
	if ctx := ch.Base; ctx != "" {
		a := st.region("G!cancelled", arr("Int", "Bool"))
		st.setRegion("G!cancelled", arr("Int", "Bool"), store(a, ctx, "true"))
	}
}

func (ex *Exec) recvValue(st *State, ch Val, et types.Type) Val {
	// channels of different element types are different objects
	for tt, ttyp := range ex.trackedChans {
		if tt != ch.T && ch.Typ != nil && !types.Identical(ttyp.Underlying().(*types.Chan).Elem(), et) {
			st.assume(not(eq(ch.T, tt)))
		}
	}
	tk := st.region("G!tokens", arr("Int", "Int"))
	if _, tracked := ex.trackedChans[ch.T]; tracked {
		// every producer of this channel is known: a receive completes only if a message exists
		st.assume("(>= " + sel(tk, ch.T) + " 1)")
	}
	st.setRegion("G!tokens", arr("Int", "Int"), store(tk, ch.T, "(- "+sel(tk, ch.T)+" 1)"))
	if s, ok := et.Underlying().(*types.Struct); ok && s.NumFields() == 0 {
		return zeroVal(et)
	}
	v := st.freshVal("recv", et)
	// message invariant of the channel, if declared
	if inv := ex.w.chanInv(et); inv != nil {
		e := &env{vars: map[string]Val{"v": v}}
		st.assume(ex.evalBool(st, inv, e))
	}
	rl := st.region("G!recvlen", arr("Int", "Int"))
	// ghost trace of received values (scalar element types)
	if v.K == KTerm && v.Typ != nil {
		if s := scalarSort(v.Typ); s != "" {
			reg := "G!recvd!" + s
			a := st.region(reg, arr("Int", arr("Int", s)))
			st.setRegion(reg, arr("Int", arr("Int", s)), store(a, ch.T, store(sel(a, ch.T), sel(rl, ch.T), v.T)))
		}
	}
	st.setRegion("G!lastrecv", "Int", sel(rl, ch.T))
	st.setRegion("G!recvlen", arr("Int", "Int"), store(rl, ch.T, "(+ "+sel(rl, ch.T)+" 1)"))
	return v
}

// syncPoint: cells shared with spawned goroutines may have been written by them.
func (ex *Exec) syncPoint(st *State) {
	for id := range st.shared {
		if v, ok := st.cells[id]; ok {
			st.cells[id] = st.rehavoc(v)
		}
	}
}

// pendingGo: a spawned closure. Its writes to captured cells become visible to the spawner when the spawner
// receives from a channel the closure closes or sends on (join); at any other synchronisation the cells it
// writes are unknown (it may or may not have run).
type pendingGo struct {
	fn        Val
	joinCells []int // cells holding the channels the closure closes / sends on
	written   []int // captured cells the closure writes
}

func goroutineSummary(fv Val) (join []int, written []int) {
	fn := fv.Fn
	idx := map[*ssa.FreeVar]int{}
	for i, f := range fn.FreeVars {
		idx[f] = i
	}
	cellOf := func(v ssa.Value) (int, bool) {
		for {
			switch x := v.(type) {
			case *ssa.FreeVar:
				if b := fv.Binds[idx[x]]; b.K == KCellPtr {
					return b.Cell.ID, true
				}
				return 0, false
			case *ssa.FieldAddr:
				v = x.X
			case *ssa.UnOp:
				v = x.X
			default:
				return 0, false
			}
		}
	}
	for _, b := range fn.Blocks {
		for _, in := range b.Instrs {
			switch x := in.(type) {
			case *ssa.Store:
				if _, isFV := x.Addr.(*ssa.FreeVar); isFV {
					if c, ok := cellOf(x.Addr); ok {
						written = append(written, c)
					}
				} else if fa, ok := x.Addr.(*ssa.FieldAddr); ok {
					if c, ok := cellOf(fa); ok {
						written = append(written, c)
					}
				}
			case *ssa.Call:
				if bi, ok := x.Common().Value.(*ssa.Builtin); ok && bi.Name() == "close" {
					if c, ok := cellOf(x.Common().Args[0]); ok {
						join = append(join, c)
					}
				}
			case *ssa.Defer:
				if bi, ok := x.Common().Value.(*ssa.Builtin); ok && bi.Name() == "close" {
					if c, ok := cellOf(x.Common().Args[0]); ok {
						join = append(join, c)
					}
				}
			case *ssa.Send:
				if c, ok := cellOf(x.Chan); ok {
					join = append(join, c)
				}
			}
		}
	}
	return
}

func (ex *Exec) goStmt(st *State, in *ssa.Go) {
	c := in.Common()
	if c.IsInvoke() {
		return
	}
	fv := st.get(c.Value)
	if fv.K != KFunc || fv.Fn == nil {
		return
	}
	ex.spawned = append(ex.spawned, fv.Fn)
	if gct := ex.w.contractFor(fv.Fn); gct != nil && len(gct.sendsOnce) > 0 {
		ex.spawnWithContract(st, in, fv, gct)
		return
	}
	if len(fv.Fn.FreeVars) == 0 {
		return
	}
	join, written := goroutineSummary(fv)
	if len(join) > 0 {
		st.pending = append(st.pending, pendingGo{fn: fv, joinCells: join, written: written})
		return
	}
	if st.shared == nil {
		st.shared = map[int]bool{}
	}
	for _, w := range written {
		st.shared[w] = true
	}
}

// joinOn: the spawner receives from channel term ch. Goroutines that close/send on it have run up to that
// point: their bodies are executed here; the cells written by all other pending goroutines are havocked.
func (ex *Exec) joinOn(st *State, ch string, k func(*State)) {
	for i, p := range st.pending {
		for _, jc := range p.joinCells {
			if v, ok := st.cells[jc]; ok && v.K == KTerm && v.T == ch {
				st.pending = append(append([]pendingGo(nil), st.pending[:i]...), st.pending[i+1:]...)
				ex.inlined["go:"+shortFn(p.fn.Fn)] = true
				ex.callFn(st, "join:"+shortFn(p.fn.Fn), p.fn.Fn, nil, p.fn.Binds, func(st *State, _ Val) {
					ex.joinOn(st, ch, k)
				})
				return
			}
		}
	}
	for _, p := range st.pending {
		for _, w := range p.written {
			if v, ok := st.cells[w]; ok {
				st.cells[w] = st.rehavoc(v)
			}
		}
	}
	k(st)
}

func (ex *Exec) selectStmt(st *State, in *ssa.Select, k func(*State, Val)) {
	// result tuple: (index int, recvOk bool, r_0 T_0, ... for each recv state)
	var recvTypes []types.Type
	for _, s := range in.States {
		if s.Dir == types.RecvOnly {
			recvTypes = append(recvTypes, s.Chan.Type().Underlying().(*types.Chan).Elem())
		}
	}
	hasDone := false
	type armT struct {
		ch  Val
		snd Val
	}
	arms := make([]armT, len(in.States))
	for i, s := range in.States {
		arms[i].ch = st.get(s.Chan)
		if s.Send != nil {
			arms[i].snd = st.get(s.Send)
		}
		if arms[i].ch.Meta == "ctx.Done" && s.Dir == types.RecvOnly {
			hasDone = true
		}
	}
	if !st.dry && in.Blocking {
		// a select with a default arm never blocks
		ex.blocking = append(ex.blocking, blockingOp{Site: siteOf(in), Kind: "select", Cancellable: hasDone, Note: fmt.Sprintf("select with %d arms", len(in.States))})
	}
	ex.syncPoint(st)
	mk := func(s *State, idx int, recvIdx int, rv Val) Val {
		fs := []Val{term(strconv.Itoa(idx), tInt), term("true", tBool)}
		ri := 0
		for _, t := range recvTypes {
			if ri == recvIdx {
				fs = append(fs, rv)
			} else {
				fs = append(fs, zeroVal(t))
			}
			ri++
		}
		return Val{K: KTuple, Fs: fs}
	}
	n := len(in.States)
	if !in.Blocking {
		n++
	}
	recvNo := 0
	for i, s := range in.States {
		var sx *State
		if i == n-1 {
			sx = st
		} else {
			sx = st.clone()
			ex.paths++
		}
		if s.Dir == types.RecvOnly {
			et := s.Chan.Type().Underlying().(*types.Chan).Elem()
			if arms[i].ch.Meta == "ctx.Done" {
				sx.markCancelled(arms[i].ch)
				sx.trace = append(sx.trace, "select:done")
			}
			ii, rn, chv := i, recvNo, arms[i].ch
			ex.joinOn(sx, chv.T, func(sx *State) {
				rv := ex.recvValue(sx, chv, et)
				k(sx, mk(sx, ii, rn, rv))
			})
			recvNo++
		} else {
			if !in.Blocking {
				// a non-blocking send on a buffered channel proceeds only if there is room
				capT := sel(sx.region("G!chancap", arr("Int", "Int")), arms[i].ch.T)
				pend := "(- " + sel(sx.region("G!sentlen", arr("Int", "Int")), arms[i].ch.T) + " " + sel(sx.region("G!recvlen", arr("Int", "Int")), arms[i].ch.T) + ")"
				sx.assume(implies("(> "+capT+" 0)", "(< "+pend+" "+capT+")"))
			}
			ex.appendSent(sx, arms[i].ch, arms[i].snd)
			k(sx, mk(sx, i, -1, Val{}))
		}
	}
	if !in.Blocking {
		// default arm: every send arm was not ready; for a buffered channel that means it is full
		for i, s := range in.States {
			if s.Dir == types.SendOnly {
				capT := sel(st.region("G!chancap", arr("Int", "Int")), arms[i].ch.T)
				pend := "(- " + sel(st.region("G!sentlen", arr("Int", "Int")), arms[i].ch.T) + " " + sel(st.region("G!recvlen", arr("Int", "Int")), arms[i].ch.T) + ")"
				st.assume(implies("(> "+capT+" 0)", "(>= "+pend+" "+capT+")"))
			}
		}
		k(st, mk(st, -1, -1, Val{}))
	}
}

// callFuncType: call through a value of a named function type that has a `functype` contract. The call is
// recorded in the ghost trace cb (arguments, result); the callee may do anything its contract allows.
func (ex *Exec) callFuncType(st *State, site string, ct *Contract, fnv Val, args []Val, k func(*State, Val)) {
	ex.record(st, ex.rootName+"/nilfunc@"+site, "safety", not(eq(fnv.T, "0")), "call of a nil function value")
	ex.callBySignature(st, site, ct, fnv.Typ.Underlying().(*types.Signature), fnv, args, k, true)
}

// callBySignature applies a contract attached to a signature (function type, interface method, function-valued field).
func (ex *Exec) callBySignature(st *State, site string, ct *Contract, sig *types.Signature, fnv Val, args []Val, k func(*State, Val), trace bool) {
	e := &env{vars: map[string]Val{"self": fnv}}
	if fo, ok := fnv.Meta.(guardOrigin); ok && fo.root != nil && fnv.Base != "" {
		e.vars["owner"] = term(fnv.Base, types.NewPointer(fo.root)) // the object whose field holds the function value
	}
	for i := 0; i < sig.Params().Len() && i < len(args); i++ {
		e.vars[sig.Params().At(i).Name()] = args[i]
		e.vars["arg"+strconv.Itoa(i)] = args[i]
	}
	for _, r := range ct.requires {
		ex.record(st, fmt.Sprintf("%s/pre:functype@%s:%s", ex.rootName, site, r.label), "requires", ex.evalBool(st, r.expr, e), r.src)
	}
	if i := strings.LastIndex(ct.short, ":"); i >= 0 {
		ex.assertAt(st, ct.short[i+1:], e.vars)
	}
	if !st.dry && ex.contract != nil && ex.contract.blocksCancellable {
		ex.blocking = append(ex.blocking, blockingOp{Site: site, Kind: "call", Cancellable: ct.blocksCancellable, Note: "call through a function value of type " + ct.short, Chan: ct.short})
	}
	pre := st.snapshotHeap()
	ex.usedContracts[ct.key] = true
	ex.havocModifies(st, ct, e, pre)
	var res Val
	switch sig.Results().Len() {
	case 0:
		res = Val{K: KUnit}
	case 1:
		res = st.freshVal("cbret", sig.Results().At(0).Type())
	default:
		res = st.freshVal("cbret", sig.Results())
	}
	e.result = &res
	if res.K == KTuple {
		for i, f := range res.Fs {
			e.vars["result"+strconv.Itoa(i)] = f
		}
	} else {
		e.vars["result0"] = res
	}
	for _, en := range ct.ensures {
		st.assume(ex.evalBool(st, en.expr, e))
	}
	if !trace {
		ex.syncPoint(st)
		k(st, res)
		return
	}
	// ghost trace of callback invocations
	n := st.region("G!cb#len", "Int")
	for i, a := range args {
		if a.K == KTerm && a.Typ != nil {
			if s := scalarSort(a.Typ); s != "" {
				reg := "G!cb!arg" + strconv.Itoa(i) + "$" + s
				st.setRegion(reg, arr("Int", s), store(st.region(reg, arr("Int", s)), n, a.T))
			}
		}
	}
	if res.K == KTerm {
		st.setRegion("G!cb!ret", arr("Int", "Int"), store(st.region("G!cb!ret", arr("Int", "Int")), n, res.T))
	}
	st.setRegion("G!cb!fn", arr("Int", "Int"), store(st.region("G!cb!fn", arr("Int", "Int")), n, fnv.T))
	st.setRegion("G!cb#len", "Int", "(+ "+n+" 1)")
	ex.syncPoint(st)
	k(st, res)
}

// spawnWithContract: `go f()` where the closure f has a contract with `sends <ch> once`. The goroutine is not inlined
// anywhere: the spawner sees it as one future message on ch (tokens(ch) grows by one). The closure's requires are
// checked here, its entry ghost assignments take effect here, assert_at go:<name> clauses of the spawner are checked
// here (before those ghost updates), and the closure body is verified against its contract as a unit of its own.
func (ex *Exec) spawnWithContract(st *State, in *ssa.Go, fv Val, gct *Contract) {
	site := callSite(in)
	name := gct.short // the name the contracts know the goroutine's function by
	vars := map[string]Val{}
	for i, f := range fv.Fn.FreeVars {
		b := fv.Binds[i]
		if b.K == KCellPtr {
			if v, ok := st.cells[b.Cell.ID]; ok {
				vars[f.Name()] = v
			}
		} else {
			vars[f.Name()] = b
		}
	}
	args := in.Common().Args
	for i, p := range fv.Fn.Params {
		if i < len(args) {
			vars[p.Name()] = st.get(args[i])
		}
	}
	ex.aliasVars(fv.Fn, vars)
	ex.assertAt(st, "go:"+name, vars)
	e := &env{vars: vars}
	for _, r := range gct.requires {
		ex.record(st, fmt.Sprintf("%s/pre:go:%s@%s:%s", ex.rootName, name, site, r.label), "requires", ex.evalBool(st, r.expr, e), r.src)
	}
	for _, ga := range gct.ghostSet {
		sort, ok := ex.w.ghostVars[ga.name]
		if !ok {
			panic(subsetErr{"contract-binding: undeclared ghost variable " + ga.name})
		}
		st.setRegion("G!"+ga.name, sort, ex.asTerm(ex.eval(st, ga.expr, e)))
	}
	for _, chn := range gct.sendsOnce {
		cv, ok := vars[chn]
		if !ok || cv.K != KTerm {
			panic(subsetErr{"contract-binding: sends " + chn + ": not a captured channel variable of " + name})
		}
		tk := st.region("G!tokens", arr("Int", "Int"))
		st.setRegion("G!tokens", arr("Int", "Int"), store(tk, cv.T, "(+ "+sel(tk, cv.T)+" 1)"))
	}
	ex.usedContracts[fnKey(fv.Fn)] = true
	// captured cells the goroutine writes are shared from now on
	_, written := goroutineSummary(fv)
	if len(written) > 0 && st.shared == nil {
		st.shared = map[int]bool{}
	}
	for _, w := range written {
		st.shared[w] = true
	}
}

// checkCallbackArgs: a concrete function passed for a parameter of a named function type that has a `functype` contract
// (the callee was verified against that contract) must itself be under contract and not be weaker on blocking; it is
// recorded as relied upon, so the property's check verifies its body against its whole contract (dependency closure).
func (ex *Exec) checkCallbackArgs(st *State, site string, fn *ssa.Function, args []Val) {
	if st.dry {
		return
	}
	for i, p := range fn.Params {
		if i >= len(args) || args[i].K != KFunc || args[i].Fn == nil {
			continue
		}
		ft := ex.w.funcTypeContract(p.Type())
		if ft == nil {
			continue
		}
		real := args[i].Fn
		if strings.Contains(real.Synthetic, "bound") || strings.Contains(real.Synthetic, "thunk") || strings.Contains(real.Synthetic, "wrapper") {
			for _, b := range real.Blocks {
				for _, in := range b.Instrs {
					if c, ok := in.(*ssa.Call); ok {
						if sc := c.Common().StaticCallee(); sc != nil {
							real = sc
						}
					}
				}
			}
		}
		ob := ex.obl(fmt.Sprintf("%s/refines:%s<=%s@%s", ex.rootName, shortFn(real), ft.short, site), "structural")
		ct2 := ex.w.contractFor(real)
		switch {
		case ct2 == nil:
			ob.VCs = append(ob.VCs, VC{goal: "false", note: shortFn(real) + " is passed as a " + ft.short + " but has no contract of its own"})
		case ft.blocksCancellable && !(ct2.blocksCancellable || ct2.blocksNever):
			ob.VCs = append(ob.VCs, VC{goal: "false", note: shortFn(real) + " is passed as a " + ft.short + " (declared cancellable) but is not declared cancellable itself"})
		default:
			ob.VCs = append(ob.VCs, VC{goal: "true", note: shortFn(real) + " is under contract and is verified against it as a dependency unit"})
			ex.usedContracts[fnKey(real)] = true
		}
	}
}
