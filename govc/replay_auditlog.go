package main

import (
	"encoding/json"
	"fmt"
	"strings"
)

const auditlogReplayTest = `package auditlog

import (
	"context"
	"encoding/json"
	"fmt"
	"testing"
	"time"
)

// Cancellation while the hand-off is blocked: the consumer has stopped and the line buffer is full.
func TestGovcReplayAuditlog(t *testing.T) {
	res := map[string]any{}
	for _, capacity := range []int{1, 4} {
		ch := make(chan string, capacity)
		for i := 0; i < capacity; i++ {
			ch <- "filler"
		}
		a := &AuditLogIngester{AuditLogChan: ch}
		ctx, cancel := context.WithCancel(context.Background())
		cancel()
		done := make(chan error, 1)
		go func() { done <- a.Process(ctx, "type=LOGIN msg=audit(1:1): x\n") }()
		select {
		case err := <-done:
			res[fmt.Sprint("cap", capacity)] = fmt.Sprint("returned: ", err)
		case <-time.After(1500 * time.Millisecond):
			res[fmt.Sprint("cap", capacity)] = "hang"
		}
	}
	b, _ := json.Marshal(res)
	fmt.Println("GOVC-OBS " + string(b))
}
`

func init() {
	replayAdapters["(*AuditLogIngester).Process"] = replayAuditlogProcess
}

func replayAuditlogProcess(w *World, rp *Replay, id string, o *Obligation, repo string) {
	out, err := runOverlayTest(repo, "ingesters/auditlog", auditlogReplayTest, "TestGovcReplayAuditlog", nil)
	rp.Inputs = map[string]any{"schedule": "the downstream line buffer (capacity 1 and 4) is full and its consumer has stopped; the context is cancelled; Process(ctx, line) is called"}
	var obs map[string]string
	for _, l := range strings.Split(out, "\n") {
		if i := strings.Index(l, "GOVC-OBS "); i >= 0 {
			json.Unmarshal([]byte(l[i+9:]), &obs)
		}
	}
	if obs == nil {
		rp.ReplayLog = trunc(out, 2000)
		rp.Notes = append(rp.Notes, fmt.Sprint("replay did not run: ", err))
		return
	}
	rp.ReplayLog = mustJSON(obs)
	for k, v := range obs {
		if v == "hang" {
			rp.Confirmed = true
			rp.Notes = append(rp.Notes, "C13: with a full buffer ("+k+") and a cancelled context the real Process does not return: the worker is blocked in a bare channel send that cancellation cannot end (and with it errgroup.Wait never returns: C08)")
		}
	}
	if !rp.Confirmed {
		rp.Notes = append(rp.Notes, "the real code returns promptly in this schedule")
	}
}
