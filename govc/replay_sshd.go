package main

// Replay adapters: turn a failed obligation into a concrete run of the real code and an independent check.

import (
	"encoding/json"
	"fmt"
	"strconv"
	"strings"
)

func buildReplay(w *World, id string, o *Obligation, repo string) *Replay {
	spec := ""
	if len(o.VCs) > 0 {
		spec = o.VCs[0].note
	}
	rp := &Replay{Property: id, Obligation: o.Name, Kind: o.Kind, Spec: spec, Status: o.Status, Solver: trunc(o.Detail, 4000), Model: trunc(o.Model, 20000), Inputs: o.Inputs}
	defer func() {
		if r := recover(); r != nil {
			rp.Notes = append(rp.Notes, fmt.Sprint("replay adapter failed: ", r))
		}
	}()
	switch {
	case strings.HasPrefix(o.Name, "lemma.") && o.Model != "":
		replayLemma(w, rp, o, repo)
	case isSshdObligation(o.Name):
		replaySshdObligation(w, rp, id, o, repo)
	default:
		if fn, ok := replayAdapters[adapterKey(o.Name)]; ok {
			fn(w, rp, id, o, repo)
		} else {
			rp.Notes = append(rp.Notes, "no counterexample model or no replay adapter for this obligation: reported without a failing input")
		}
	}
	return rp
}

var replayAdapters = map[string]func(w *World, rp *Replay, id string, o *Obligation, repo string){}

func adapterKey(obl string) string {
	if i := strings.Index(obl, "/"); i >= 0 {
		return obl[:i]
	}
	return obl
}

func isSshdObligation(name string) bool {
	fn := adapterKey(name)
	for _, h := range append(append([]string{}, sshdHandlers...), sshdAccepted...) {
		if fn == h {
			return true
		}
	}
	return fn == "ProcessEntry" || fn == "(*SshdProcessorer).ProcessSshdLogEntry"
}

func modelString(m map[string]string, keys ...string) (string, bool) {
	for _, k := range keys {
		if v, ok := m[k]; ok {
			return smtStringValue(v), true
		}
	}
	return "", false
}

var sshdKeywords = []string{"Accepted publickey", "Accepted password", "Certificate invalid", "Invalid user", "User ", "ROOT LOGIN REFUSED FROM ",
	"Authentication refused for ", "Nasty PTR record ", "reverse mapping checking getaddrinfo for ", "Address ", "maximum authentication attempts exceeded for ",
	"Authentication key ", "Error checking authentication key ", "Failed password for "}

// sshdOracle: the properties C05/C11/C19 evaluated directly on one concrete run (independent of the contracts).
func sshdOracle(in sshdReplayInput, obs *sshdObservation) []string {
	var bad []string
	if obs.Panic != "" {
		bad = append(bad, "C11: panic: "+obs.Panic)
	}
	if obs.Hang {
		bad = append(bad, "C05/C13: processing did not return within 2s although the call's context was cancelled="+fmt.Sprint(in.Cancel)+" (hand-off to an unready correlator is not governed by the call's context)")
		return bad
	}
	if obs.Err != "" && in.FailAt == 0 {
		bad = append(bad, "C11: error returned although no write failed: "+obs.Err)
	}
	// the injected fault applies only if the code got as far as that write (a line that emits nothing has no write to fail)
	failed := in.FailAt > 0 && obs.Writes >= in.FailAt
	if failed && obs.Err == "" {
		bad = append(bad, "C05: the event write failed but no error was returned")
	}
	if failed && len(obs.Sent) > 0 {
		bad = append(bad, "C05: a login was forwarded although the event write failed")
	}
	if len(obs.Events) > 1 {
		bad = append(bad, fmt.Sprintf("C11: %d events for one line", len(obs.Events)))
	}
	if len(obs.Sent) > 1 {
		bad = append(bad, fmt.Sprintf("C05: %d logins forwarded for one line", len(obs.Sent)))
	}
	kw := false
	for _, k := range sshdKeywords {
		if strings.HasPrefix(in.Line, k) {
			kw = true
		}
	}
	total := 0
	for _, v := range obs.Counters {
		total += v
	}
	if !kw && (len(obs.Events) > 0 || total > 0) {
		bad = append(bad, "C11/C19: a line without a recognised keyword produced an event or changed a counter")
	}
	if len(obs.Events) == 1 {
		e := obs.Events[0]
		outcome, _ := e["outcome"].(string)
		if total != 1 {
			bad = append(bad, fmt.Sprintf("C19: one event emitted but the counters changed by %d (%v)", total, obs.Counters))
		}
		for lbl, v := range obs.Counters {
			if v > 0 {
				want := "failure"
				if outcome == "succeeded" {
					want = "success"
				}
				if !strings.HasSuffix(lbl, "/"+want) {
					bad = append(bad, fmt.Sprintf("C19: event outcome %q counted under %q", outcome, lbl))
				}
			}
		}
		if outcome == "succeeded" && in.FailAt == 0 && !in.Cancel {
			if len(obs.Sent) != 1 {
				bad = append(bad, "C05: a succeeded event was written but no login was forwarded")
			} else {
				s := obs.Sent[0]
				if pid, err := strconv.Atoi(in.PID); err == nil {
					if got, _ := s["PID"].(float64); int(got) != pid {
						bad = append(bad, fmt.Sprintf("C05: forwarded PID %v differs from the line's PID %d", s["PID"], pid))
					}
				}
				md, _ := e["metadata"].(map[string]any)
				if md != nil && s["auditId"] != md["auditId"] {
					bad = append(bad, "C05: the forwarded login does not carry the event that was written")
				}
			}
		}
		if outcome != "succeeded" && len(obs.Sent) > 0 {
			bad = append(bad, "C05: a login was forwarded for a failed authentication")
		}
		// C11: extracted values are substrings of the line or placeholders
		for k, v := range eventValues(e) {
			if strings.HasPrefix(k, "subjects.") || k == "source.value" {
				if k == "subjects.pid" {
					continue
				}
				if !(strings.Contains(in.Line, v) || v == "unknown" || v == "root" || v == "unknown reason") {
					bad = append(bad, fmt.Sprintf("C11: %s = %q is neither a substring of the line nor a placeholder", k, v))
				}
			}
		}
	}
	if len(obs.Events) == 0 && len(obs.Sent) > 0 {
		bad = append(bad, "C05: a login was forwarded without an event")
	}
	return bad
}

func replaySshdObligation(w *World, rp *Replay, id string, o *Obligation, repo string) {
	line, ok1 := modelString(o.Inputs, "config.logEntry", "sm.Message")
	pid, ok2 := modelString(o.Inputs, "config.pid", "sm.PID")
	if !ok1 || !ok2 {
		replaySshdCorpus(w, rp, o, repo)
		return
	}
	in := sshdReplayInput{Line: line, PID: pid}
	writes := 0
	for _, t := range o.Trace {
		switch t {
		case "write:ok":
			writes++
		case "write:fail":
			writes++
			in.FailAt = writes
		case "select:done":
			in.Cancel = true
		}
	}
	obs, log, err := replaySshdLine(repo, in)
	rp.ReplayCmd = "go test -overlay <generated> -vet=off -run TestGovcReplaySshd ./processors/sshd/   (GOVC_REPLAY_INPUT=" + mustJSON(in) + ")"
	if err != nil {
		rp.ReplayLog = trunc(log, 3000)
		rp.Notes = append(rp.Notes, "replay did not run: "+err.Error())
		return
	}
	rp.ReplayLog = mustJSON(obs)
	bad := sshdOracle(in, obs)
	if len(bad) > 0 {
		rp.Confirmed = true
		rp.Notes = append(rp.Notes, bad...)
	} else {
		rp.Notes = append(rp.Notes, "the model's input does not violate the property on the real code (contract-level failure only)")
	}
	rp.Inputs = map[string]any{"line": in.Line, "pid": in.PID, "fail_write": in.FailAt, "cancelled": in.Cancel}
}

func mustJSON(v any) string {
	b, _ := json.Marshal(v)
	return string(b)
}

// replayLemma: the counterexample of a regular-language lemma is a log line (or a field value).
func replayLemma(w *World, rp *Replay, o *Obligation, repo string) {
	y, ok := lemmaModelLine(o.Model)
	if !ok {
		rp.Notes = append(rp.Notes, "no string value in the solver output")
		return
	}
	parts := strings.SplitN(strings.TrimPrefix(o.Name, "lemma."), "/", 2)
	forms, err := loadForms()
	if err != nil {
		return
	}
	var f *sshdForm
	for _, x := range forms {
		if x.Name == parts[0] {
			f = x
		}
	}
	if f == nil {
		return
	}
	expected := map[string]string{} // field name -> value
	line := ""
	what := parts[1]
	switch {
	case strings.HasPrefix(what, "exists:"):
		fname := strings.TrimPrefix(what, "exists:")
		var b strings.Builder
		tailSeen := false
		for _, it := range f.items {
			if it.Field == nil {
				b.WriteString(it.Lit)
				continue
			}
			v := sampleItems(it.Field.items)
			if it.Field.Name == fname {
				v = y
				tailSeen = true
			}
			expected[it.Field.Name] = v
			b.WriteString(v)
		}
		if !tailSeen && fname == "tail" {
			rp.Notes = append(rp.Notes, "tail counterexample: "+y)
			return
		}
		line = b.String()
	default:
		plain, fields := splitMarked(y)
		line = plain
		fi := 0
		for _, it := range f.items {
			if it.Field != nil {
				if v, ok := fields[fi]; ok {
					expected[it.Field.Name] = v
				}
				fi++
			}
		}
	}
	if f.Regex != "" {
		// sub-form of the certificate remainder: embed in an accepted-certificate line
		line = "Accepted publickey for u from 1.2.3.4 port 22 ssh2: RSA-CERT SHA256:abc " + line
	}
	in := sshdReplayInput{Line: line, PID: "4242"}
	obs, log, err := replaySshdLine(repo, in)
	rp.Inputs = map[string]any{"line": line, "pid": "4242", "expected_fields": expected}
	if err != nil {
		rp.ReplayLog = trunc(log, 3000)
		rp.Notes = append(rp.Notes, "replay did not run: "+err.Error())
		return
	}
	rp.ReplayLog = mustJSON(obs)
	if len(obs.Events) != 1 {
		rp.Confirmed = true
		rp.Notes = append(rp.Notes, fmt.Sprintf("the real code emitted %d events for a line sshd can print in form %s", len(obs.Events), f.Name))
		return
	}
	vals := eventValues(obs.Events[0])
	for _, it := range f.items {
		if it.Field == nil || it.Field.Group == "" {
			continue
		}
		want, ok := expected[it.Field.Name]
		if !ok {
			continue
		}
		found := false
		for _, v := range vals {
			if v == want {
				found = true
			}
		}
		if !found {
			rp.Confirmed = true
			rp.Notes = append(rp.Notes, fmt.Sprintf("field %s = %q printed by sshd does not appear in the event (%v)", it.Field.Name, want, vals))
		}
	}
	if !rp.Confirmed {
		rp.Notes = append(rp.Notes, "the real code renders this line correctly (lemma-level failure only)")
	}
}

// replaySshdCorpus: no model (the solvers answered unknown). Bounded search for a failing input: the sample
// line of every message format of the oracle (plus variants), under the fault decisions of the failed path.
func replaySshdCorpus(w *World, rp *Replay, o *Obligation, repo string) {
	failAt, cancel := 0, false
	writes := 0
	// the failing path is not known without a model: try the fault decisions of every recorded path
	type fd struct {
		failAt int
		cancel bool
	}
	seen := map[fd]bool{{0, false}: true, {0, true}: true, {1, false}: true}
	fds := []fd{{0, false}, {0, true}, {1, false}}
	for _, vc := range o.VCs {
		failAt, cancel, writes = 0, false, 0
		for _, t := range vc.trace {
			switch t {
			case "write:ok":
				writes++
			case "write:fail":
				writes++
				failAt = writes
			case "select:done":
				cancel = true
			}
		}
		if !seen[fd{failAt, cancel}] {
			seen[fd{failAt, cancel}] = true
			fds = append(fds, fd{failAt, cancel})
		}
	}
	forms, err := loadForms()
	if err != nil {
		rp.Notes = append(rp.Notes, "no model and no format oracle: "+err.Error())
		return
	}
	var lines []string
	for _, f := range forms {
		if f.Regex != "" {
			continue
		}
		var b strings.Builder
		for _, it := range f.items {
			if it.Field != nil {
				b.WriteString(sampleItems(it.Field.items))
			} else {
				b.WriteString(it.Lit)
			}
		}
		lines = append(lines, b.String())
		if f.Name == "failed-password" || f.Name == "max-auth-attempts" {
			lines = append(lines, strings.Replace(b.String(), " for ", " for invalid user ", 1))
		}
		if f.Name == "accepted-publickey" {
			lines = append(lines, b.String()+" trailing data", b.String()+" ID key id (serial 7) CA RSA SHA256:abc")
		}
	}
	lines = append(lines, "", "User ", "Accepted password", "some unrelated line")
	var ins []sshdReplayInput
	for _, d := range fds {
		for _, l := range lines {
			for _, pid := range []string{"4242", "70000", "x"} {
				if pid != "4242" && !strings.HasPrefix(l, "Accepted") {
					continue
				}
				ins = append(ins, sshdReplayInput{Line: l, PID: pid, FailAt: d.failAt, Cancel: d.cancel})
			}
		}
	}
	obs, log, err := replaySshdLines(repo, ins)
	rp.ReplayCmd = fmt.Sprintf("go test -overlay <generated> -vet=off -run TestGovcReplaySshd ./processors/sshd/   (%d corpus inputs: format samples x fault decisions of the failed paths)", len(ins))
	if err != nil || len(obs) != len(ins) {
		rp.ReplayLog = trunc(log, 3000)
		rp.Notes = append(rp.Notes, fmt.Sprint("corpus replay did not run: ", err))
		return
	}
	for i, ob := range obs {
		if bad := sshdOracle(ins[i], &ob); len(bad) > 0 {
			// some corpus inputs exercise blocking and cancellation: an observation that depends on timing must repeat
			// before it counts as a failing input (a loaded machine is not a defect)
			if obs2, _, err2 := replaySshdLines(repo, []sshdReplayInput{ins[i]}); err2 != nil || len(obs2) != 1 || len(sshdOracle(ins[i], &obs2[0])) == 0 {
				rp.Notes = append(rp.Notes, fmt.Sprintf("corpus input %d looked like a violation once but not when replayed alone: not counted", i))
				continue
			}
			rp.Confirmed = true
			rp.Inputs = map[string]any{"line": ins[i].Line, "pid": ins[i].PID, "fail_write": ins[i].FailAt, "cancelled": ins[i].Cancel, "found_by": "bounded corpus search (no solver model)"}
			rp.ReplayLog = mustJSON(ob)
			rp.Notes = append(rp.Notes, bad...)
			return
		}
	}
	rp.Notes = append(rp.Notes, fmt.Sprintf("no solver model; none of the %d corpus inputs violates the property on the real code", len(ins)))
}
