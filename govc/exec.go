package main

// Symbolic executor / VC generator over go/ssa (NaiveForm | InstantiateGenerics).

import (
	"fmt"
	"go/token"
	"go/types"
	"os"
	"strconv"
	"strings"

	"golang.org/x/tools/go/ssa"
)

type VC struct {
	pc    []string
	goal  string
	note  string
	trace []string
}

type Obligation struct {
	Name string
	Kind string // safety, ensures, requires, invariant, assert, subset, lemma, structural
	VCs  []VC
	Site string
	// filled by the solver stage
	Status     string // discharged | failed | error
	Solver     string
	TimeS      float64
	Model      string
	Detail     string
	SmtSize    int
	scripts    []string          // closed scripts (position lemmas); each must be unsat
	script     *smtScript        // declarations of the verification unit this obligation belongs to
	Inputs     map[string]string // values of the function's inputs in the counterexample
	Trace      []string          // oracle decisions (write failures, select arms) along the failing path
	inputTerms map[string]string
}

type Exec struct {
	w         *World
	root      *ssa.Function
	rootName  string
	contract  *Contract
	decls     map[string]string
	declOrder []string
	ctr       int
	regSorts  map[string]string
	obls      map[string]*Obligation
	oblOrder  []string
	paths     int
	maxPaths  int
	inlined   map[string]bool
	externs   map[string]bool
	entryHeap map[string]string
	entryVals map[string]Val // parameters by name (entry values)
	results   []string       // names of result parameters
	axioms    []string
	cellCtr   int
	frameCtr  int
	loopDry   []*dryLoop
	mode      execMode
	lemmaFns  map[string]bool
	siteCtr   map[string]int
	ghostInit bool

	usedContracts  map[string]bool
	coverSeen      map[string]int
	lastWrittenOld map[string]bool // result of the last dry run: regions written at pre-existing objects
	dryFresh       map[string]bool // objects allocated during the current loop dry run
	invDepth       int
	inInvariant    bool                  // evaluating loop invariants (identifier fallbacks that are safe for lemmas only)
	rebound        []string              // loop invariants re-bound from a stale key to a moved loop
	dryAborted     string                // non-empty: the last loop dry run hit a subset error (its write set is unreliable)
	trackedChans   map[string]types.Type // channel terms made for a local variable listed in the contract's tokens clause
	usedRegex      map[string]bool
	blocking       []blockingOp
	spawned        []*ssa.Function
	lockSites      int
	funs           map[string]string
	funOrder       []string
	assertCtr      map[string]int
	exits          int
	substrOf       map[string]string
	inputTerms     map[string]string
	preLocks       int
	atom           *atomicSpec
	assertSeen     map[string]bool
	tagTypes       map[string]types.Type
}

type execMode struct {
	concurrency bool // havoc guarded regions at lock acquisition, check lock invariants
}

type dryLoop struct {
	frameID int
	blocks  map[int]bool
}

func (ex *Exec) asTerm(v Val) string {
	switch v.K {
	case KTerm:
		return v.T
	case KFunc:
		if v.Fn == nil {
			return "0"
		}
		return ex.funcID(v)
	case KUnit:
		return "0"
	case KHeapPtr:
		if _, ok := v.Meta.(boxRoot); ok && len(v.Path) == 0 {
			return v.Base
		}
	}
	panic(subsetErr{fmt.Sprintf("value of kind %d (type %v) used as a scalar", v.K, v.Typ)})
}

func (ex *Exec) funcID(v Val) string {
	// function values as opaque positive integers (only compared against nil)
	return "1"
}

// record registers a verification condition for obligation `name`.
func (ex *Exec) record(st *State, name, kind, goal, note string) {
	if st.dry || st.dead {
		return
	}
	if goal == "true" {
		// still count the obligation as existing, trivially discharged
		ob := ex.obl(name, kind)
		ob.VCs = append(ob.VCs, VC{pc: nil, goal: "true", note: note})
		return
	}
	ob := ex.obl(name, kind)
	ob.VCs = append(ob.VCs, VC{pc: append([]string(nil), st.pc...), goal: goal, note: note, trace: append([]string(nil), st.trace...)})
	ob.inputTerms = ex.inputTerms
}

func (ex *Exec) obl(name, kind string) *Obligation {
	ob, ok := ex.obls[name]
	if !ok {
		ob = &Obligation{Name: name, Kind: kind}
		ex.obls[name] = ob
		ex.oblOrder = append(ex.oblOrder, name)
	}
	return ob
}

func (ex *Exec) subsetFail(st *State, what string) {
	if st.dry {
		st.dead = true
		return
	}
	name := ex.rootName + "/subset:" + what
	ob := ex.obl(name, "subset")
	ob.VCs = append(ob.VCs, VC{goal: "false", note: what})
	st.dead = true
}

func siteOf(instr ssa.Instruction) string {
	fn := instr.Parent()
	b := instr.Block()
	for i, in := range b.Instrs {
		if in == instr {
			return fmt.Sprintf("%s.b%d.i%d", shortFn(fn), b.Index, i)
		}
	}
	return shortFn(fn)
}

func (ex *Exec) safetyName(kind string, instr ssa.Instruction) string {
	// ordinal of this kind of check within its function, in source order: stable under unrelated edits
	fn := instr.Parent()
	key := shortFn(fn) + "/" + kind
	n := 0
	found := false
	for _, b := range fn.Blocks {
		for _, in := range b.Instrs {
			if safetyKind(in) == kind {
				n++
			}
			if in == instr {
				found = true
				break
			}
		}
		if found {
			break
		}
	}
	if shortFn(fn) == ex.rootName {
		return fmt.Sprintf("%s/%s#%d", ex.rootName, kind, n)
	}
	return fmt.Sprintf("%s/%s@%s#%d", ex.rootName, kind, strings.TrimSuffix(key, "/"+kind), n)
}

func safetyKind(in ssa.Instruction) string {
	switch x := in.(type) {
	case *ssa.IndexAddr, *ssa.Index:
		return "bounds"
	case *ssa.Slice:
		return "bounds"
	case *ssa.UnOp:
		if x.Op == token.MUL {
			return "nil"
		}
	case *ssa.Store:
		return "nil"
	case *ssa.FieldAddr:
		return "nil"
	case *ssa.MapUpdate:
		return "nilmap"
	case *ssa.Panic:
		return "panic"
	case *ssa.TypeAssert:
		return "assert"
	case *ssa.BinOp:
		switch x.Op {
		case token.ADD, token.SUB, token.MUL:
			return "overflow"
		case token.QUO, token.REM:
			return "divzero"
		}
	case *ssa.Convert:
		return "overflow"
	}
	return ""
}

// ---------------------------------------------------------------------------------------------
// Frames

func (ex *Exec) pushFrame(st *State, fn *ssa.Function, args []Val, binds []Val, ret func(*State, Val)) *Frame {
	ex.frameCtr++
	fr := &Frame{fn: fn, vals: map[ssa.Value]Val{}, binds: binds, active: map[int]bool{}, id: ex.frameCtr, retCont: ret, depth: len(st.frames)}
	for i, p := range fn.Params {
		if i < len(args) {
			fr.vals[p] = args[i]
		}
	}
	st.frames = append(st.frames, fr)
	return fr
}

func (st *State) get(v ssa.Value) Val {
	ex := st.ex
	switch x := v.(type) {
	case *ssa.Const:
		if t, ok := constTerm(x); ok {
			return term(t, x.Type())
		}
		return zeroVal(x.Type())
	case *ssa.Function:
		return Val{K: KFunc, Fn: x, Typ: x.Type()}
	case *ssa.Global:
		return ex.globalPtr(st, x)
	case *ssa.FreeVar:
		fr := st.top()
		for i, fv := range fr.fn.FreeVars {
			if fv == x {
				return fr.binds[i]
			}
		}
		panic("free var not bound")
	case *ssa.Builtin:
		return Val{K: KFunc, Typ: x.Type(), Meta: x}
	}
	fr := st.top()
	if val, ok := fr.vals[v]; ok {
		return val
	}
	panic(subsetErr{fmt.Sprintf("value %s (%T) not defined in frame %s", v.Name(), v, fr.fn)})
}

// globalPtr returns a pointer to the package-level variable g. Globals live in region "G!<name>".
func (ex *Exec) globalPtr(st *State, g *ssa.Global) Val {
	return Val{K: KHeapPtr, Typ: g.Type(), Base: "0", Root: nil, Meta: g}
}

func (ex *Exec) newCell(name string, t types.Type) *Cell {
	ex.cellCtr++
	return &Cell{ID: ex.cellCtr, Name: name, Typ: t}
}

// ---------------------------------------------------------------------------------------------
// Main loop

func (ex *Exec) run(st *State, b *ssa.BasicBlock, idx int) {
	defer func() {
		if r := recover(); r != nil {
			if se, ok := r.(subsetErr); ok {
				ex.subsetFail(st, se.msg)
				return
			}
			panic(r)
		}
	}()
	ex.runInner(st, b, idx)
}

func (ex *Exec) runInner(st *State, b *ssa.BasicBlock, idx int) {
	for {
		if st.dead {
			return
		}
		fr := st.top()
		if idx == -1 {
			idx = 0
		} else if idx == 0 {
			// dry-run stop: leaving the loop whose write set is being collected
			if n := len(ex.loopDry); n > 0 && st.dry {
				dl := ex.loopDry[n-1]
				if fr.id == dl.frameID && !dl.blocks[b.Index] {
					return
				}
			}
			if isLoopHeader(b) {
				if ex.loopHeader(st, b) {
					return
				}
			}
		}
		if idx >= len(b.Instrs) {
			panic("fell off block")
		}
		instr := b.Instrs[idx]
		switch in := instr.(type) {
		case *ssa.If:
			c := ex.asTerm(st.get(in.Cond))
			fr.prev = b
			if c == "true" {
				b, idx = b.Succs[0], 0
				continue
			}
			if c == "false" {
				b, idx = b.Succs[1], 0
				continue
			}
			if fr.unroll != nil && fr.unroll[b.Index] > 0 && isLoopHeader(b) {
				ex.subsetFail(st, fmt.Sprintf("loop-without-invariant:%s#%d", ex.w.contractBaseFn(fr.fn), loopOrdinal(b)))
				return
			}
			ex.paths++
			if ex.paths > ex.maxPaths {
				ex.subsetFail(st, "path-limit")
				return
			}
			s2 := st.clone()
			st.assume(c)
			s2.assume(not(c))
			ex.run(st, b.Succs[0], 0)
			ex.run(s2, b.Succs[1], 0)
			return
		case *ssa.Jump:
			fr.prev = b
			b, idx = b.Succs[0], 0
			continue
		case *ssa.Return:
			if n := len(ex.loopDry); n > 0 && st.dry && fr.id == ex.loopDry[n-1].frameID {
				return
			}
			var res Val
			switch len(in.Results) {
			case 0:
				res = Val{K: KUnit}
			case 1:
				res = st.get(in.Results[0])
			default:
				fs := make([]Val, len(in.Results))
				for i, r := range in.Results {
					fs[i] = st.get(r)
				}
				res = Val{K: KTuple, Fs: fs, Typ: fr.fn.Signature.Results()}
			}
			k := fr.retCont
			st.frames = st.frames[:len(st.frames)-1]
			k(st, res)
			return
		case *ssa.Panic:
			ex.record(st, ex.safetyName("panic", in), "safety", "false", "explicit panic")
			return
		case *ssa.RunDefers:
			bb, ii := b, idx
			ex.runDefers(st, func(st *State) { ex.runInner(st, bb, ii+1) })
			return
		case *ssa.Call:
			bb, ii := b, idx
			ex.call(st, in, in.Common(), func(st *State, res Val) {
				st.top().vals[in] = res
				ex.runInner(st, bb, ii+1)
			})
			return
		case *ssa.Defer:
			c := in.Common()
			d := deferred{call: c, site: siteOf(in)}
			if !c.IsInvoke() {
				d.fn = st.get(c.Value)
			} else {
				d.fn = st.get(c.Value)
			}
			for _, a := range c.Args {
				d.args = append(d.args, st.get(a))
			}
			fr.defers = append(fr.defers, d)
		case *ssa.Go:
			ex.goStmt(st, in)
		case *ssa.Select:
			bb, ii := b, idx
			ex.selectStmt(st, in, func(st *State, res Val) {
				st.top().vals[in] = res
				ex.runInner(st, bb, ii+1)
			})
			return
		case *ssa.Next:
			bb, ii := b, idx
			ex.nextInstr(st, in, func(st *State, res Val) {
				st.top().vals[in] = res
				ex.runInner(st, bb, ii+1)
			})
			return
		case *ssa.Send:
			ex.sendInstr(st, in)
		case *ssa.DebugRef:
		default:
			ex.step(st, fr, instr)
		}
		idx++
	}
}

func isLoopHeader(b *ssa.BasicBlock) bool {
	for _, p := range b.Preds {
		if b.Dominates(p) {
			return true
		}
	}
	return false
}

// loopBlocks returns the natural loop of header h.
func loopBlocks(h *ssa.BasicBlock) map[int]bool {
	set := map[int]bool{h.Index: true}
	var stack []*ssa.BasicBlock
	for _, p := range h.Preds {
		if h.Dominates(p) && !set[p.Index] {
			set[p.Index] = true
			stack = append(stack, p)
		}
	}
	for len(stack) > 0 {
		n := stack[len(stack)-1]
		stack = stack[:len(stack)-1]
		for _, p := range n.Preds {
			if !set[p.Index] {
				set[p.Index] = true
				stack = append(stack, p)
			}
		}
	}
	return set
}

// loopOrdinal is the 1-based ordinal of header b among the loop headers of its function.
func loopOrdinal(b *ssa.BasicBlock) int {
	n := 0
	for _, x := range b.Parent().Blocks {
		if isLoopHeader(x) {
			n++
		}
		if x == b {
			return n
		}
	}
	return 0
}

func (ex *Exec) loopHeader(st *State, b *ssa.BasicBlock) bool {
	fr := st.top()
	key := fmt.Sprintf("%s#%d", ex.w.contractBaseFn(fr.fn), loopOrdinal(b))
	invs := ex.contract.loopInvs(key)
	if invs == nil {
		// a loop of a callee executed in place: its invariants are those of the nearest enclosing function under contract
		for i := len(st.frames) - 1; i >= 0 && invs == nil; i-- {
			if f := st.frames[i].fn; f != ex.root && f.Parent() == nil {
				if ct := ex.w.contractFor(f); ct != nil {
					invs = ct.loopInvs(key)
				}
			}
		}
	}
	if invs == nil {
		invs = ex.staleKeyInvariants(st, key)
	}
	ex.invDepth++
	ex.inInvariant = true
	defer func() { ex.invDepth--; ex.inInvariant = ex.invDepth > 0 }()
	if fr.active[b.Index] {
		// back edge
		for _, inv := range invs {
			g := ex.evalBool(st, inv.expr, nil)
			ex.record(st, fmt.Sprintf("%s/inv-step:%s:%s", ex.rootName, key, inv.label), "invariant", g, inv.src)
		}
		return true
	}
	if invs == nil {
		// no invariant: the loop is executed as it stands (unrolled) as long as its exit test is decided by literals
		// — a loop over a static table; any symbolic exit test ends the attempt (see the If case of runInner)
		if fr.unroll == nil {
			fr.unroll = map[int]int{}
		}
		fr.unroll[b.Index]++
		if fr.unroll[b.Index] > 66 {
			ex.subsetFail(st, "loop-without-invariant:"+key)
			return true
		}
		return false
	}
	st.preHeap = st.snapshotHeap()
	for _, inv := range invs {
		g := ex.evalBool(st, inv.expr, nil)
		ex.record(st, fmt.Sprintf("%s/inv-entry:%s:%s", ex.rootName, key, inv.label), "invariant", g, inv.src)
	}
	// write set by dry run
	ex.dryAborted = ""
	regs, cells := ex.collectWrites(st, b)
	ex.inInvariant = true
	if ex.dryAborted != "" {
		msg := ex.dryAborted
		ex.dryAborted = ""
		if st.dry {
			panic(subsetErr{msg}) // nested loop inside an outer dry run: the outer exploration is cut short as well
		}
		ex.subsetFail(st, "the write set of loop "+key+" could not be determined: "+msg)
		return true
	}
	aPre := st.region("A", arr("Int", "Bool"))
	oldW := ex.lastWrittenOld
	for _, r := range regs {
		pre := st.heap[r]
		if srt, ok := ex.regSorts[r]; ok && pre == "" {
			pre = st.region(r, srt)
		}
		st.havocRegion(r)
		// a region the body only writes at objects it allocates itself: objects that existed before the loop keep
		// their values in it
		if pre != "" && oldW != nil && !oldW[r] && r != "A" && (strings.HasPrefix(r, "F!") || strings.HasPrefix(r, "M!") || strings.HasPrefix(r, "S!") || strings.HasPrefix(r, "B!")) {
			if strings.HasPrefix(ex.regSorts[r], "(Array Int ") {
				nw := st.heap[r]
				st.assume("(forall ((r Int)) (! (=> (select " + aPre + " r) (= (select " + nw + " r) (select " + pre + " r))) :pattern ((select " + nw + " r))))")
			}
		}
	}
	for _, c := range cells {
		if v, ok := st.cells[c]; ok {
			st.strictHavoc = true
			nv := st.rehavoc(v)
			st.strictHavoc = false
			st.cells[c] = nv
			if st.writtenCells != nil {
				st.writtenCells[c] = true
			}
		}
	}
	for _, inv := range invs {
		t := ex.evalBool(st, inv.expr, nil)
		if os.Getenv("GOVC_DEBUG_INV") != "" {
			fmt.Fprintf(os.Stderr, "INV %s[%s] := %s\n", key, inv.label, trunc(t, 300))
		}
		st.assume(t)
	}
	fr.active[b.Index] = true
	return false
}

// rehavoc returns a fresh value of the same shape as v (function values and pointers are kept).
func (st *State) rehavoc(v Val) Val {
	switch v.K {
	case KTerm:
		if v.Typ == nil {
			// raw array-sorted ghost (visited sets): find sort from declaration
			if s, ok := st.ex.sortOfTerm(v.T); ok {
				return Val{K: KTerm, T: st.ex.fresh("hv", s)}
			}
			// never keep the pre-loop value of something the loop writes
			panic(subsetErr{"cannot havoc an untyped ghost value at a loop cut: " + trunc(v.T, 60)})
		}
		return st.freshVal("hv", v.Typ)
	case KStruct, KSlice, KTuple:
		return st.freshVal("hv", v.Typ)
	case KFunc, KUnit:
		return v
	}
	if st.dry || !st.strictHavoc {
		return v
	}
	// interior pointers, arrays, iterators: a loop that reassigns such a variable is outside the subset
	panic(subsetErr{fmt.Sprintf("cannot havoc a value of kind %d that the loop writes", v.K)})
}

func (ex *Exec) sortOfTerm(t string) (string, bool) {
	s, ok := ex.decls[t]
	return s, ok
}

func (ex *Exec) collectWrites(st *State, b *ssa.BasicBlock) ([]string, []int) {
	d := st.clone()
	d.dry = true
	d.written = map[string]bool{}
	d.writtenOld = map[string]bool{}
	d.writtenCells = map[int]bool{}
	if ex.dryFresh == nil {
		ex.dryFresh = map[string]bool{}
		defer func() { ex.dryFresh = nil }()
	}
	// havoc everything so that every syntactic path of the body is explored
	for _, r := range sortedKeys(ex.regSorts) {
		d.havocRegion(r)
	}
	d.written = map[string]bool{}
	d.writtenOld = map[string]bool{}
	for id, v := range d.cells {
		d.cells[id] = d.rehavoc(v)
	}
	fr := d.top()
	fr.active[b.Index] = true
	ex.loopDry = append(ex.loopDry, &dryLoop{frameID: fr.id, blocks: loopBlocks(b)})
	savedPaths := ex.paths
	func() {
		defer func() {
			if r := recover(); r != nil {
				if se, ok := r.(subsetErr); ok {
					// the exploration of the loop body was cut short: the write set may be incomplete
					ex.dryAborted = se.msg
					return
				}
				panic(r)
			}
		}()
		ex.runInnerFromHeader(d, b)
	}()
	ex.paths = savedPaths
	ex.loopDry = ex.loopDry[:len(ex.loopDry)-1]
	var cells []int
	for c := range d.writtenCells {
		if _, ok := st.cells[c]; ok {
			cells = append(cells, c)
		}
	}
	if st.written != nil {
		for r := range d.written {
			st.written[r] = true
		}
		for c := range d.writtenCells {
			st.writtenCells[c] = true
		}
	}
	ex.lastWrittenOld = d.writtenOld
	return sortedKeys(d.written), cells
}

// runInnerFromHeader executes the header block b without treating the arrival as a loop cut.
func (ex *Exec) runInnerFromHeader(st *State, b *ssa.BasicBlock) {
	ex.runInner(st, b, -1)
}

// ---------------------------------------------------------------------------------------------
// Straight-line instructions

func (ex *Exec) step(st *State, fr *Frame, instr ssa.Instruction) {
	switch in := instr.(type) {
	case *ssa.Alloc:
		fr.vals[in] = ex.alloc(st, in)
	case *ssa.Store:
		ex.storePtr(st, st.get(in.Addr), st.get(in.Val), in)
	case *ssa.UnOp:
		fr.vals[in] = ex.unop(st, in)
	case *ssa.BinOp:
		fr.vals[in] = ex.binop(st, in)
	case *ssa.FieldAddr:
		fr.vals[in] = ex.fieldAddr(st, in)
	case *ssa.Field:
		x := st.get(in.X)
		if x.K != KStruct {
			panic(subsetErr{"Field on non-struct value"})
		}
		fr.vals[in] = x.Fs[in.Field]
	case *ssa.IndexAddr:
		fr.vals[in] = ex.indexAddr(st, in)
	case *ssa.Index:
		fr.vals[in] = ex.indexVal(st, in)
	case *ssa.Slice:
		fr.vals[in] = ex.sliceInstr(st, in)
	case *ssa.Extract:
		t := st.get(in.Tuple)
		if t.K != KTuple {
			panic(subsetErr{"extract from non-tuple"})
		}
		fr.vals[in] = t.Fs[in.Index]
	case *ssa.Phi:
		for i, p := range in.Block().Preds {
			if p == fr.prev {
				fr.vals[in] = st.get(in.Edges[i])
				return
			}
		}
		panic("phi: predecessor not found")
	case *ssa.MakeClosure:
		binds := make([]Val, len(in.Bindings))
		for i, bnd := range in.Bindings {
			binds[i] = st.get(bnd)
		}
		fr.vals[in] = Val{K: KFunc, Fn: in.Fn.(*ssa.Function), Binds: binds, Typ: in.Type()}
	case *ssa.MakeInterface:
		fr.vals[in] = ex.makeInterface(st, in)
	case *ssa.ChangeInterface:
		fr.vals[in] = st.get(in.X)
	case *ssa.ChangeType:
		v := st.get(in.X)
		v.Typ = in.Type()
		fr.vals[in] = v
	case *ssa.Convert:
		fr.vals[in] = ex.convert(st, in)
	case *ssa.MakeMap:
		r := st.allocRef("map")
		mt := in.Type().Underlying().(*types.Map)
		ex.mapInit(st, mt, r)
		fr.vals[in] = term(r, in.Type())
	case *ssa.MakeSlice:
		id := st.allocRef("slice")
		ln := ex.asTerm(st.get(in.Len))
		et := in.Type().Underlying().(*types.Slice).Elem()
		if s := scalarSort(et); s != "" {
			reg := "S!" + typeName(et)
			a := st.region(reg, arr("Int", arr("Int", s)))
			st.setRegion(reg, arr("Int", arr("Int", s)), store(a, id, zeroTerm(arr("Int", s))))
		}
		fr.vals[in] = Val{K: KSlice, Typ: in.Type(), Fs: []Val{term(id, tInt), term("0", tInt), term(ln, tInt)}}
	case *ssa.MakeChan:
		r := st.allocRef("chan")
		capT := ex.asTerm(st.get(in.Size))
		st.setRegion("G!chancap", arr("Int", "Int"), store(st.region("G!chancap", arr("Int", "Int")), r, capT))
		st.setRegion("G!sentlen", arr("Int", "Int"), store(st.region("G!sentlen", arr("Int", "Int")), r, "0"))
		st.setRegion("G!recvlen", arr("Int", "Int"), store(st.region("G!recvlen", arr("Int", "Int")), r, "0"))
		st.setRegion("G!closed", arr("Int", "Bool"), store(st.region("G!closed", arr("Int", "Bool")), r, "false"))
		st.setRegion("G!tokens", arr("Int", "Int"), store(st.region("G!tokens", arr("Int", "Int")), r, "0"))
		if ex.contract != nil && len(ex.contract.tokens) > 0 && in.Parent() == ex.root {
			for _, ref := range *in.Referrers() {
				if sto, ok := ref.(*ssa.Store); ok {
					if al, ok := sto.Addr.(*ssa.Alloc); ok {
						for _, tn := range ex.contract.tokens {
							if al.Comment == tn {
								if ex.trackedChans == nil {
									ex.trackedChans = map[string]types.Type{}
								}
								ex.trackedChans[r] = in.Type()
							}
						}
					}
				}
			}
		}
		fr.vals[in] = term(r, in.Type())
	case *ssa.MapUpdate:
		ex.mapUpdate(st, in)
	case *ssa.Lookup:
		fr.vals[in] = ex.lookup(st, in)
	case *ssa.Range:
		fr.vals[in] = ex.rangeInstr(st, in)
	case *ssa.TypeAssert:
		fr.vals[in] = ex.typeAssert(st, in)
	default:
		panic(subsetErr{fmt.Sprintf("unmodelled instruction %T", instr)})
	}
}

// escapes reports whether the address produced by alloc can leave the executor's cell model.
func escapes(a *ssa.Alloc) bool {
	var check func(v ssa.Value, depth int) bool
	check = func(v ssa.Value, depth int) bool {
		refs := v.Referrers()
		if refs == nil {
			return true
		}
		for _, r := range *refs {
			switch x := r.(type) {
			case *ssa.Store:
				if x.Val == v {
					return true
				}
			case *ssa.UnOp, *ssa.DebugRef, *ssa.MakeClosure:
			case *ssa.FieldAddr:
				if depth > 4 || check(x, depth+1) {
					return true
				}
			case *ssa.IndexAddr:
				if depth > 4 || check(x, depth+1) {
					return true
				}
			case *ssa.Slice:
				// slice of a local array (varargs) — stays executor-level
			default:
				return true
			}
		}
		return false
	}
	return check(a, 0)
}

func (ex *Exec) alloc(st *State, in *ssa.Alloc) Val {
	et := in.Type().Underlying().(*types.Pointer).Elem()
	if isStructT(et) && in.Heap && escapes(in) {
		r := st.allocRef("new_" + typeName(et))
		for _, lf := range leaves(et) {
			st.writeLeaf(et, lf.path, lf.sort, r, zeroTerm(lf.sort))
		}
		return term(r, in.Type())
	}
	if in.Heap && escapes(in) {
		if _, isArr := et.Underlying().(*types.Array); !isArr {
			// escaping scalar cell: model as a one-field heap object
			r := st.allocRef("box_" + typeName(et))
			v := Val{K: KHeapPtr, Typ: in.Type(), Base: r, Root: nil, Meta: boxRoot{et}}
			ex.storePtr(st, v, zeroVal(et), in)
			return v
		}
	}
	c := ex.newCell(in.Comment, et)
	st.cells[c.ID] = zeroVal(et)
	return Val{K: KCellPtr, Typ: in.Type(), Cell: c}
}

type boxRoot struct{ t types.Type }

func boxRegion(t types.Type, path string) string {
	if path == "" {
		return "B!" + typeName(t)
	}
	return "B!" + typeName(t) + "!" + path
}

func (ex *Exec) nilCheck(st *State, ref string, instr ssa.Instruction) {
	if ref == "0" {
		ex.record(st, ex.safetyName("nil", instr), "safety", "false", "nil dereference at "+siteOf(instr))
		return
	}
	if strings.Contains(ref, "!") && st.knownNonNil(ref) {
		return
	}
	ex.record(st, ex.safetyName("nil", instr), "safety", not(eq(ref, "0")), "nil dereference at "+siteOf(instr))
}

// knownNonNil: cheap syntactic check — freshly allocated references carry (> r 0) in the path condition.
func (st *State) knownNonNil(ref string) bool {
	want := "(> " + ref + " 0)"
	for i := len(st.pc) - 1; i >= 0; i-- {
		if st.pc[i] == want {
			return true
		}
	}
	return false
}

func (ex *Exec) loadPtr(st *State, p Val, instr ssa.Instruction) Val {
	switch p.K {
	case KCellPtr:
		v, ok := st.cells[p.Cell.ID]
		if !ok {
			panic(subsetErr{"load from dead cell " + p.Cell.Name})
		}
		for _, i := range p.Path {
			switch v.K {
			case KStruct, KArray:
				v = v.Fs[i]
			default:
				panic(subsetErr{"cell path into non-composite"})
			}
		}
		return v
	case KHeapPtr:
		if g, ok := p.Meta.(*ssa.Global); ok {
			return ex.loadGlobal(st, g, p.Path)
		}
		if br, ok := p.Meta.(boxRoot); ok {
			return ex.loadBox(st, br.t, p)
		}
		if se, ok := p.Meta.(sliceElem); ok {
			reg, sort := sliceRegion(se.et)
			if t, ok := st.known[reg+"|"+p.Base+"|"+se.idx]; ok {
				return term(t, se.et)
			}
			return term(sel(sel(st.region(reg, sort), p.Base), se.idx), se.et)
		}
		path, lt := pathOf(p.Root, p.Path)
		if instr != nil {
			ex.atomicOwned(st, p.Root, p.Base, siteOf(instr))
		}
		return st.loadAt(p.Root, path, lt, p.Base)
	case KTerm:
		// pointer to a heap struct, loaded whole
		pt, ok := p.Typ.Underlying().(*types.Pointer)
		if !ok {
			panic(subsetErr{"load through non-pointer"})
		}
		ex.nilCheck(st, p.T, instr)
		et := pt.Elem()
		if isStructT(et) {
			return st.loadAt(et, "", et, p.T)
		}
		return ex.loadBox(st, et, Val{K: KHeapPtr, Base: p.T, Meta: boxRoot{et}})
	}
	panic(subsetErr{fmt.Sprintf("load through value of kind %d", p.K)})
}

func (ex *Exec) loadBox(st *State, t types.Type, p Val) Val {
	if s := scalarSort(t); s != "" {
		return term(sel(st.region(boxRegion(t, ""), arr("Int", s)), p.Base), t)
	}
	if isSliceT(t) {
		f := func(c string) Val {
			return term(sel(st.region(boxRegion(t, c), arr("Int", "Int")), p.Base), tInt)
		}
		return Val{K: KSlice, Typ: t, Fs: []Val{f("#id"), f("#off"), f("#len")}}
	}
	panic(subsetErr{"boxed value of composite type " + t.String()})
}

func (ex *Exec) storeBox(st *State, t types.Type, p Val, v Val) {
	if s := scalarSort(t); s != "" {
		reg := boxRegion(t, "")
		st.setRegion(reg, arr("Int", s), store(st.region(reg, arr("Int", s)), p.Base, ex.asTerm(v)))
		return
	}
	if isSliceT(t) && v.K == KSlice {
		for i, c := range []string{"#id", "#off", "#len"} {
			reg := boxRegion(t, c)
			st.setRegion(reg, arr("Int", "Int"), store(st.region(reg, arr("Int", "Int")), p.Base, v.Fs[i].T))
		}
		return
	}
	panic(subsetErr{"boxed store of composite type " + t.String()})
}

func setPath(v Val, path []int, nv Val) Val {
	if len(path) == 0 {
		return nv
	}
	if v.K != KStruct && v.K != KArray {
		panic(subsetErr{"cell path store into non-composite"})
	}
	fs := append([]Val(nil), v.Fs...)
	fs[path[0]] = setPath(fs[path[0]], path[1:], nv)
	v.Fs = fs
	return v
}

func (ex *Exec) storePtr(st *State, p Val, v Val, instr ssa.Instruction) {
	switch p.K {
	case KCellPtr:
		cur := st.cells[p.Cell.ID]
		st.cells[p.Cell.ID] = setPath(cur, p.Path, v)
		if st.writtenCells != nil {
			st.writtenCells[p.Cell.ID] = true
		}
	case KHeapPtr:
		if g, ok := p.Meta.(*ssa.Global); ok {
			ex.storeGlobal(st, g, p.Path, v)
			return
		}
		if br, ok := p.Meta.(boxRoot); ok {
			ex.storeBox(st, br.t, p, v)
			return
		}
		if se, ok := p.Meta.(sliceElem); ok {
			reg, sort := sliceRegion(se.et)
			a := st.region(reg, sort)
			st.setRegion(reg, sort, store(a, p.Base, store(sel(a, p.Base), se.idx, ex.asTerm(v))))
			if isByteT(se.et) {
				// the ghost string content of a byte slice is lost once an element is overwritten
				bs := st.region("G!bytestr", arr("Int", "String"))
				st.setRegion("G!bytestr", arr("Int", "String"), store(bs, p.Base, ex.fresh("bytes_after_store", "String")))
			}
			for k := range st.known {
				if strings.HasPrefix(k, reg+"|"+p.Base+"|") {
					delete(st.known, k)
				}
			}
			return
		}
		path, lt := pathOf(p.Root, p.Path)
		ex.guardCheck(st, p.Root, path, p.Base, instr, true)
		if instr != nil {
			ex.atomicOwned(st, p.Root, p.Base, siteOf(instr))
		}
		st.storeAt(p.Root, path, lt, p.Base, v)
	case KTerm:
		pt, ok := p.Typ.Underlying().(*types.Pointer)
		if !ok {
			panic(subsetErr{"store through non-pointer"})
		}
		ex.nilCheck(st, p.T, instr)
		et := pt.Elem()
		if isStructT(et) {
			st.storeAt(et, "", et, p.T, v)
			return
		}
		ex.storeBox(st, et, Val{K: KHeapPtr, Base: p.T, Meta: boxRoot{et}}, v)
	default:
		panic(subsetErr{fmt.Sprintf("store through value of kind %d", p.K)})
	}
}

func (ex *Exec) fieldAddr(st *State, in *ssa.FieldAddr) Val {
	x := st.get(in.X)
	switch x.K {
	case KCellPtr:
		np := append(append([]int(nil), x.Path...), in.Field)
		return Val{K: KCellPtr, Typ: in.Type(), Cell: x.Cell, Path: np}
	case KHeapPtr:
		np := append(append([]int(nil), x.Path...), in.Field)
		r := x
		r.Path = np
		r.Typ = in.Type()
		return r
	case KTerm:
		ex.nilCheck(st, x.T, in)
		et := x.Typ.Underlying().(*types.Pointer).Elem()
		if opaqueStruct(et) {
			// address of a field of an opaque struct (e.g. &m.mtx inside sync types): identity only
			return Val{K: KHeapPtr, Typ: in.Type(), Base: x.T, Root: et, Path: []int{in.Field}, Meta: "opaque"}
		}
		return Val{K: KHeapPtr, Typ: in.Type(), Base: x.T, Root: et, Path: []int{in.Field}}
	}
	panic(subsetErr{"FieldAddr on unsupported pointer"})
}

func (ex *Exec) unop(st *State, in *ssa.UnOp) Val {
	x := st.get(in.X)
	switch in.Op {
	case token.MUL:
		v := ex.loadPtr(st, x, in)
		if x.K == KHeapPtr && x.Root != nil {
			path, _ := pathOf(x.Root, x.Path)
			ex.guardCheck(st, x.Root, path, x.Base, in, false)
		}
		if x.K == KHeapPtr && x.Root != nil && v.K == KTerm && v.Typ != nil && v.Meta == nil {
			if _, isMap := v.Typ.Underlying().(*types.Map); isMap {
				path, _ := pathOf(x.Root, x.Path)
				v.Base = x.Base
				v.Meta = guardOrigin{x.Root, path}
			}
			if _, isFn := v.Typ.Underlying().(*types.Signature); isFn {
				path, _ := pathOf(x.Root, x.Path)
				v.Base = x.Base
				v.Meta = guardOrigin{x.Root, path}
			}
		}
		// loaded references are allocated (well-typed heap)
		if _, lit := isIntLit(v.T); v.K == KTerm && v.Typ != nil && x.K != KCellPtr && !lit {
			switch v.Typ.Underlying().(type) {
			case *types.Pointer, *types.Map, *types.Chan:
				st.assume(or(eq(v.T, "0"), and("(> "+v.T+" 0)", sel(st.region("A", arr("Int", "Bool")), v.T))))
			}
		}
		return v
	case token.NOT:
		return term(not(ex.asTerm(x)), in.Type())
	case token.SUB:
		return term("(- "+ex.asTerm(x)+")", in.Type())
	case token.ARROW:
		return ex.recv(st, x, in)
	case token.XOR:
		panic(subsetErr{"bitwise complement"})
	}
	panic(subsetErr{"unop " + in.Op.String()})
}

// addT adds two integer terms, folding literals.
func addT(a, b string) string {
	la, aok := isIntLit(a)
	lb, bok := isIntLit(b)
	switch {
	case aok && bok:
		return smtInt(la + lb)
	case aok && la == 0:
		return b
	case bok && lb == 0:
		return a
	}
	return "(+ " + a + " " + b + ")"
}

func (st *State) setKnown(reg, id, idx, t string) {
	if st.known == nil {
		st.known = map[string]string{}
	}
	st.known[reg+"|"+id+"|"+idx] = t
}

func isIntLit(s string) (int64, bool) {
	if strings.HasPrefix(s, "(- ") && strings.HasSuffix(s, ")") {
		n, err := strconv.ParseInt(s[3:len(s)-1], 10, 64)
		return -n, err == nil
	}
	n, err := strconv.ParseInt(s, 10, 64)
	return n, err == nil
}

func (ex *Exec) binop(st *State, in *ssa.BinOp) Val {
	x, y := st.get(in.X), st.get(in.Y)
	rt := in.Type()
	// comparisons against nil for non-scalar kinds
	if in.Op == token.EQL || in.Op == token.NEQ {
		isNil := func(v Val) bool { return v.K == KTerm && v.T == "0" || v.K == KFunc && v.Fn == nil && v.Meta == nil }
		var c string
		switch {
		case x.K == KSlice && isNilConst(in.Y):
			c = eq(x.Fs[0].T, "0")
			if st.knownNonNil(x.Fs[0].T) {
				c = "false"
			}
		case y.K == KSlice && isNilConst(in.X):
			c = eq(y.Fs[0].T, "0")
			if st.knownNonNil(y.Fs[0].T) {
				c = "false"
			}
		case x.K == KSlice && y.K == KSlice:
			if isNilConst(in.Y) {
				c = eq(x.Fs[0].T, "0")
			} else if isNilConst(in.X) {
				c = eq(y.Fs[0].T, "0")
			} else {
				panic(subsetErr{"slice comparison"})
			}
		case x.K == KFunc || y.K == KFunc:
			xa, ya := x.K == KFunc && x.Fn != nil, y.K == KFunc && y.Fn != nil
			if x.K == KFunc && y.K == KFunc {
				if xa == ya && !xa {
					c = "true"
				} else if xa != ya {
					c = "false"
				} else {
					panic(subsetErr{"comparison of two functions"})
				}
			} else {
				other := y
				fnv := x
				if y.K == KFunc {
					other, fnv = x, y
				}
				_ = isNil
				if other.K == KTerm {
					if fnv.Fn != nil {
						c = eq(other.T, "1")
						if other.T == "0" {
							c = "false"
						}
					} else {
						c = eq(other.T, "0")
					}
				} else {
					panic(subsetErr{"function comparison"})
				}
			}
		case x.K == KStruct || y.K == KStruct:
			panic(subsetErr{"struct comparison"})
		}
		if c != "" {
			if in.Op == token.NEQ {
				c = not(c)
			}
			return term(c, rt)
		}
	}
	a, b := ex.asTerm(x), ex.asTerm(y)
	sortX := scalarSort(in.X.Type())
	la, aok := isIntLit(a)
	lb, bok := isIntLit(b)
	lit := aok && bok && sortX == "Int"
	boolT := func(v bool) Val {
		if v {
			return term("true", rt)
		}
		return term("false", rt)
	}
	switch in.Op {
	case token.ADD:
		if sortX == "String" {
			return term("(str.++ "+a+" "+b+")", rt)
		}
		if lit {
			return term(smtInt(la+lb), rt)
		}
		r := "(+ " + a + " " + b + ")"
		ex.overflow(st, r, rt, in)
		return term(r, rt)
	case token.SUB:
		if lit {
			return term(smtInt(la-lb), rt)
		}
		r := "(- " + a + " " + b + ")"
		ex.overflow(st, r, rt, in)
		return term(r, rt)
	case token.MUL:
		r := "(* " + a + " " + b + ")"
		ex.overflow(st, r, rt, in)
		return term(r, rt)
	case token.QUO:
		if sortX == "Int" {
			ex.record(st, ex.safetyName("divzero", in), "safety", not(eq(b, "0")), "division by zero")
			// Go truncates toward zero
			q := "(ite (>= " + a + " 0) (div " + a + " " + b + ") (- (div (- " + a + ") " + b + ")))"
			return term(q, rt)
		}
		return term("(/ "+a+" "+b+")", rt)
	case token.REM:
		ex.record(st, ex.safetyName("divzero", in), "safety", not(eq(b, "0")), "division by zero")
		return term("(ite (>= "+a+" 0) (mod "+a+" "+b+") (- (mod (- "+a+") "+b+")))", rt)
	case token.EQL:
		if lit {
			return boolT(la == lb)
		}
		return term(eq(a, b), rt)
	case token.NEQ:
		if lit {
			return boolT(la != lb)
		}
		return term(not(eq(a, b)), rt)
	case token.LSS, token.LEQ, token.GTR, token.GEQ:
		if sortX == "String" {
			switch in.Op {
			case token.LSS:
				return term("(str.< "+a+" "+b+")", rt)
			case token.LEQ:
				return term("(str.<= "+a+" "+b+")", rt)
			case token.GTR:
				return term("(str.< "+b+" "+a+")", rt)
			default:
				return term("(str.<= "+b+" "+a+")", rt)
			}
		}
		if lit {
			switch in.Op {
			case token.LSS:
				return boolT(la < lb)
			case token.LEQ:
				return boolT(la <= lb)
			case token.GTR:
				return boolT(la > lb)
			default:
				return boolT(la >= lb)
			}
		}
		op := map[token.Token]string{token.LSS: "<", token.LEQ: "<=", token.GTR: ">", token.GEQ: ">="}[in.Op]
		return term("("+op+" "+a+" "+b+")", rt)
	case token.AND:
		if sortX == "Bool" {
			return term(and(a, b), rt)
		}
		return ex.bitop(st, "bvand", a, b, rt)
	case token.OR:
		if sortX == "Bool" {
			return term(or(a, b), rt)
		}
		return ex.bitop(st, "bvor", a, b, rt)
	}
	panic(subsetErr{"binop " + in.Op.String()})
}

// bitop models a bitwise operation on 32-bit unsigned values (os.FileMode & os.ModeNamedPipe).
func (ex *Exec) bitop(st *State, op, a, b string, rt types.Type) Val {
	bt, ok := rt.Underlying().(*types.Basic)
	if !ok || (bt.Kind() != types.Uint32) {
		panic(subsetErr{"bit operation on non-uint32"})
	}
	return term("(bv2nat ("+op+" ((_ int2bv 32) "+a+") ((_ int2bv 32) "+b+")))", rt)
}

func isNilConst(v ssa.Value) bool {
	c, ok := v.(*ssa.Const)
	return ok && c.Value == nil
}

func (ex *Exec) overflow(st *State, r string, t types.Type, in ssa.Instruction) {
	b, ok := t.Underlying().(*types.Basic)
	if !ok || b.Info()&types.IsInteger == 0 {
		return
	}
	lo, hi := intRange(b)
	ex.record(st, ex.safetyName("overflow", in), "safety", and("(<= "+lo+" "+r+")", "(<= "+r+" "+hi+")"), "integer overflow at "+siteOf(in))
}

func (ex *Exec) convert(st *State, in *ssa.Convert) Val {
	x := st.get(in.X)
	from, to := in.X.Type(), in.Type()
	fs, ts := scalarSort(from), scalarSort(to)
	switch {
	case x.K == KSlice && isSliceT(to):
		x.Typ = to
		return x
	case x.K == KSlice && ts == "String":
		// string(bytes): the ghost content of the backing array, cut to the slice's window
		if et := from.Underlying().(*types.Slice).Elem(); isByteT(et) {
			c := sel(st.region("G!bytestr", arr("Int", "String")), x.Fs[0].T)
			return term("(str.substr "+c+" "+x.Fs[1].T+" "+x.Fs[2].T+")", to)
		}
		return st.freshVal("str_of_bytes", to)
	case fs == "String" && isSliceT(to):
		id := st.allocRef("bytes")
		if et := to.Underlying().(*types.Slice).Elem(); isByteT(et) {
			bs := st.region("G!bytestr", arr("Int", "String"))
			st.setRegion("G!bytestr", arr("Int", "String"), store(bs, id, x.T))
		}
		return Val{K: KSlice, Typ: to, Fs: []Val{term(id, tInt), term("0", tInt), term("(str.len "+x.T+")", tInt)}}
	case fs == "Int" && ts == "Int":
		tb, ok := to.Underlying().(*types.Basic)
		fb, ok2 := from.Underlying().(*types.Basic)
		if ok && ok2 {
			flo, fhi := intRange(fb)
			tlo, thi := intRange(tb)
			if !(rangeLE(tlo, flo) && rangeLE(fhi, thi)) {
				ex.record(st, ex.safetyName("overflow", in), "safety", and("(<= "+tlo+" "+x.T+")", "(<= "+x.T+" "+thi+")"), "narrowing conversion at "+siteOf(in))
			}
		}
		return term(x.T, to)
	case fs == "Int" && ts == "Real":
		return term("(to_real "+x.T+")", to)
	case fs == "Real" && ts == "Real":
		return term(x.T, to)
	case fs == "String" && ts == "String":
		return term(x.T, to)
	case fs == "Int" && ts == "String":
		return st.freshVal("str_of_rune", to)
	}
	panic(subsetErr{fmt.Sprintf("conversion %s -> %s", from, to)})
}

func rangeLE(a, b string) bool {
	pa, _ := parseBig(a)
	pb, _ := parseBig(b)
	return pa <= pb
}

func parseBig(s string) (float64, bool) {
	neg := false
	if strings.HasPrefix(s, "(- ") {
		neg = true
		s = s[3 : len(s)-1]
	}
	f, err := strconv.ParseFloat(s, 64)
	if neg {
		f = -f
	}
	return f, err == nil
}

func (ex *Exec) makeInterface(st *State, in *ssa.MakeInterface) Val {
	x := st.get(in.X)
	xt := in.X.Type()
	// pointers keep their identity; everything else is boxed into a fresh reference
	if _, ok := xt.Underlying().(*types.Pointer); ok && x.K == KTerm {
		st.setDyn(x.T, xt)
		return term(x.T, in.Type())
	}
	r := st.allocRef("iface")
	st.setDyn(r, xt)
	if x.K == KTerm {
		s := scalarSort(xt)
		reg := "I!" + s
		st.setRegion(reg, arr("Int", s), store(st.region(reg, arr("Int", s)), r, x.T))
	} else if x.K == KStruct || x.K == KSlice {
		// composite payloads are stored leaf by leaf under I!<type>.<path>
		func() {
			defer func() { recover() }()
			lfs := leaves(xt)
			ts := flatten(x, ex)
			if len(lfs) != len(ts) || len(lfs) > 12 {
				return
			}
			for i, lf := range lfs {
				reg := "I!" + typeName(xt) + "." + lf.path
				st.setRegion(reg, arr("Int", lf.sort), store(st.region(reg, arr("Int", lf.sort)), r, ts[i]))
			}
		}()
	}
	v := term(r, in.Type())
	v.Meta = x // keep the boxed value for executor-level consumers (fmt verbs, %w)
	return v
}

func (st *State) setDyn(ref string, t types.Type) {
	id := st.ex.w.typeID(t)
	st.setRegion("G!dyn", arr("Int", "Int"), store(st.region("G!dyn", arr("Int", "Int")), ref, strconv.Itoa(id)))
}

func (ex *Exec) typeAssert(st *State, in *ssa.TypeAssert) Val {
	x := st.get(in.X)
	id := strconv.Itoa(ex.w.typeID(in.AssertedType))
	isT := eq(sel(st.region("G!dyn", arr("Int", "Int")), x.T), id)
	if _, isIface := in.AssertedType.Underlying().(*types.Interface); isIface {
		isT = ex.fresh("implements", "Bool")
	}
	var payload Val
	if _, ok := in.AssertedType.Underlying().(*types.Pointer); ok {
		payload = term(x.T, in.AssertedType)
	} else if s := scalarSort(in.AssertedType); s != "" {
		payload = term(sel(st.region("I!"+s, arr("Int", s)), x.T), in.AssertedType)
	} else {
		payload = st.freshVal("asserted", in.AssertedType)
	}
	if in.CommaOk {
		return Val{K: KTuple, Fs: []Val{payload, term(and(not(eq(x.T, "0")), isT), tBool)}}
	}
	ex.record(st, ex.safetyName("assert", in), "safety", and(not(eq(x.T, "0")), isT), "type assertion at "+siteOf(in))
	return payload
}

// ---------------------------------------------------------------------------------------------
// Slices, strings, arrays

func isByteT(t types.Type) bool {
	b, ok := t.Underlying().(*types.Basic)
	return ok && b.Kind() == types.Uint8
}

func sliceRegion(et types.Type) (string, string) {
	s := scalarSort(et)
	if s == "" {
		panic(subsetErr{"slice of composite element type " + et.String()})
	}
	return "S!" + typeName(et), arr("Int", arr("Int", s))
}

func (ex *Exec) indexAddr(st *State, in *ssa.IndexAddr) Val {
	x := st.get(in.X)
	i := st.get(in.Index)
	switch x.K {
	case KCellPtr: // pointer to local array
		n, ok := isIntLit(i.T)
		if !ok {
			panic(subsetErr{"symbolic index into local array"})
		}
		np := append(append([]int(nil), x.Path...), int(n))
		return Val{K: KCellPtr, Typ: in.Type(), Cell: x.Cell, Path: np}
	case KArray:
		// a static table (or any executor-level array value): the element becomes a read-only local
		n, ok := isIntLit(i.T)
		if !ok {
			panic(subsetErr{"symbolic index into a static table"})
		}
		if n < 0 || int(n) >= len(x.Fs) {
			ex.record(st, ex.safetyName("bounds", in), "safety", "false", "index out of range at "+siteOf(in))
			panic(subsetErr{"index out of range into a static table"})
		}
		c := ex.newCell("tableelem", x.Fs[n].Typ)
		st.cells[c.ID] = x.Fs[n]
		return Val{K: KCellPtr, Typ: in.Type(), Cell: c}
	case KSlice:
		ex.record(st, ex.safetyName("bounds", in), "safety", and("(<= 0 "+i.T+")", "(< "+i.T+" "+x.Fs[2].T+")"), "index out of range at "+siteOf(in))
		et := x.Typ.Underlying().(*types.Slice).Elem()
		return Val{K: KHeapPtr, Typ: in.Type(), Base: x.Fs[0].T, Meta: sliceElem{et, addT(x.Fs[1].T, i.T)}}
	}
	panic(subsetErr{"IndexAddr on unsupported value"})
}

type sliceElem struct {
	et  types.Type
	idx string
}

func (ex *Exec) indexVal(st *State, in *ssa.Index) Val {
	x := st.get(in.X)
	i := st.get(in.Index)
	if scalarSort(in.X.Type()) == "String" {
		ex.record(st, ex.safetyName("bounds", in), "safety", and("(<= 0 "+i.T+")", "(< "+i.T+" (str.len "+x.T+"))"), "string index out of range at "+siteOf(in))
		return term("(str.to_code (str.at "+x.T+" "+i.T+"))", in.Type())
	}
	if x.K == KArray {
		n, ok := isIntLit(i.T)
		if ok {
			return x.Fs[n]
		}
	}
	panic(subsetErr{"Index on unsupported value"})
}

func (ex *Exec) sliceInstr(st *State, in *ssa.Slice) Val {
	x := st.get(in.X)
	var lo, hi string
	if in.Low != nil {
		lo = ex.asTerm(st.get(in.Low))
	}
	if in.High != nil {
		hi = ex.asTerm(st.get(in.High))
	}
	if in.Max != nil {
		panic(subsetErr{"3-index slice"})
	}
	switch {
	case x.K == KTerm && scalarSort(in.X.Type()) == "String":
		n := "(str.len " + x.T + ")"
		if lo == "" {
			lo = "0"
		}
		if hi == "" {
			hi = n
		}
		ex.record(st, ex.safetyName("bounds", in), "safety", and("(<= 0 "+lo+")", "(<= "+lo+" "+hi+")", "(<= "+hi+" "+n+")"), "string slice bounds at "+siteOf(in))
		r := "(str.substr " + x.T + " " + lo + " (- " + hi + " " + lo + "))"
		if ex.substrOf == nil {
			ex.substrOf = map[string]string{}
		}
		ex.substrOf[r] = x.T
		return term(r, in.Type())
	case x.K == KCellPtr:
		// slice of a local array (varargs): keep the element values at executor level
		arrv := ex.loadPtr(st, x, in)
		if arrv.K != KArray {
			panic(subsetErr{"slice of non-array cell"})
		}
		return Val{K: KArray, Typ: in.Type(), Fs: arrv.Fs, Meta: "varargs"}
	case x.K == KSlice:
		if lo == "" {
			lo = "0"
		}
		if hi == "" {
			hi = x.Fs[2].T
		}
		// cap is not modelled: require hi <= len (stronger than Go's hi <= cap)
		ex.record(st, ex.safetyName("bounds", in), "safety", and("(<= 0 "+lo+")", "(<= "+lo+" "+hi+")", "(<= "+hi+" "+x.Fs[2].T+")"), "slice bounds at "+siteOf(in))
		return Val{K: KSlice, Typ: in.Type(), Fs: []Val{x.Fs[0], term(addT(x.Fs[1].T, lo), tInt), term("(- "+hi+" "+lo+")", tInt)}}
	}
	panic(subsetErr{"Slice on unsupported value"})
}

// sliceGet reads element i (term) of slice value s.
func (st *State) sliceGet(s Val, i string) Val {
	et := s.Typ.Underlying().(*types.Slice).Elem()
	reg, sort := sliceRegion(et)
	return term(sel(sel(st.region(reg, sort), s.Fs[0].T), addT(s.Fs[1].T, i)), et)
}

func (ex *Exec) appendSlice(st *State, s Val, elems []Val, typ types.Type) Val {
	et := typ.Underlying().(*types.Slice).Elem()
	reg, sort := sliceRegion(et)
	a := st.region(reg, sort)
	id := st.allocRef("slice")
	content := sel(a, s.Fs[0].T)
	ln := s.Fs[2].T
	for k, e := range elems {
		content = store(content, addT(addT(s.Fs[1].T, ln), strconv.Itoa(k)), ex.asTerm(e))
	}
	st.setRegion(reg, sort, store(a, id, content))
	nl := "(+ " + ln + " " + strconv.Itoa(len(elems)) + ")"
	if l, ok := isIntLit(ln); ok {
		nl = smtInt(l + int64(len(elems)))
	}
	return Val{K: KSlice, Typ: typ, Fs: []Val{term(id, tInt), s.Fs[1], term(nl, tInt)}}
}

// ---------------------------------------------------------------------------------------------
// Maps

func mapRegions(mt *types.Map) (dom, domSort string) {
	ks := scalarSort(mt.Key())
	if ks == "" {
		panic(subsetErr{"map with composite key"})
	}
	return "M!" + typeName(mt) + "!dom", arr("Int", arr(ks, "Bool"))
}

func mapValRegion(mt *types.Map, lf leaf) (string, string) {
	ks := scalarSort(mt.Key())
	name := "M!" + typeName(mt) + "!val"
	if lf.path != "" {
		name += "!" + lf.path
	}
	return name, arr("Int", arr(ks, lf.sort))
}

func (ex *Exec) mapInit(st *State, mt *types.Map, r string) {
	dom, ds := mapRegions(mt)
	_, inner := arraySorts(ds)
	st.setRegionAt(dom, ds, store(st.region(dom, ds), r, zeroTerm(inner)), r)
}

func (st *State) mapHas(mt *types.Map, m, k string) string {
	dom, ds := mapRegions(mt)
	return sel(sel(st.region(dom, ds), m), k)
}

func (st *State) mapGet(mt *types.Map, m, k string) Val {
	vt := mt.Elem()
	lfs := leaves(vt)
	get := func(lf leaf) string {
		reg, s := mapValRegion(mt, lf)
		return sel(sel(st.region(reg, s), m), k)
	}
	if scalarSort(vt) != "" {
		return term(get(lfs[0]), vt)
	}
	// struct value: rebuild from leaves
	i := 0
	var build func(t types.Type) Val
	build = func(t types.Type) Val {
		if scalarSort(t) != "" {
			v := term(get(lfs[i]), t)
			i++
			return v
		}
		switch u := t.Underlying().(type) {
		case *types.Struct:
			fs := make([]Val, u.NumFields())
			for j := range fs {
				fs[j] = build(u.Field(j).Type())
			}
			return Val{K: KStruct, Typ: t, Fs: fs}
		case *types.Slice:
			a, b, c := get(lfs[i]), get(lfs[i+1]), get(lfs[i+2])
			i += 3
			return Val{K: KSlice, Typ: t, Fs: []Val{term(a, tInt), term(b, tInt), term(c, tInt)}}
		}
		panic(subsetErr{"map value type " + t.String()})
	}
	return build(vt)
}

func flatten(v Val, ex *Exec) []string {
	switch v.K {
	case KTerm, KFunc, KUnit:
		return []string{ex.asTerm(v)}
	case KStruct, KSlice, KTuple:
		var out []string
		for _, f := range v.Fs {
			out = append(out, flatten(f, ex)...)
		}
		return out
	}
	panic(subsetErr{fmt.Sprintf("flatten kind %d", v.K)})
}

func (st *State) mapSet(mt *types.Map, m, k string, v Val) {
	dom, ds := mapRegions(mt)
	d := st.region(dom, ds)
	st.setRegionAt(dom, ds, store(d, m, store(sel(d, m), k, "true")), m)
	lfs := leaves(mt.Elem())
	ts := flatten(v, st.ex)
	if len(ts) != len(lfs) {
		panic(subsetErr{"map value shape mismatch"})
	}
	for i, lf := range lfs {
		reg, s := mapValRegion(mt, lf)
		a := st.region(reg, s)
		st.setRegionAt(reg, s, store(a, m, store(sel(a, m), k, ts[i])), m)
	}
}

func (st *State) mapDelete(mt *types.Map, m, k string) {
	dom, ds := mapRegions(mt)
	d := st.region(dom, ds)
	st.setRegionAt(dom, ds, store(d, m, store(sel(d, m), k, "false")), m)
}

func (ex *Exec) mapUpdate(st *State, in *ssa.MapUpdate) {
	m := st.get(in.Map)
	mt := in.Map.Type().Underlying().(*types.Map)
	ex.record(st, ex.safetyName("nilmap", in), "safety", not(eq(m.T, "0")), "assignment to entry in nil map at "+siteOf(in))
	ex.guardCheckMap(st, m, in, true)
	if v := st.get(in.Value); v.K == KTerm && strings.HasPrefix(v.T, "new_") {
		if st.published == nil {
			st.published = map[string]bool{}
		}
		st.published[v.T] = true
	}
	st.mapSet(mt, m.T, ex.asTerm(st.get(in.Key)), st.get(in.Value))
}

func (ex *Exec) lookup(st *State, in *ssa.Lookup) Val {
	x := st.get(in.X)
	mt, ok := in.X.Type().Underlying().(*types.Map)
	if !ok {
		panic(subsetErr{"string lookup"})
	}
	k := ex.asTerm(st.get(in.Index))
	ex.guardCheckMap(st, x, in, false)
	has := and(not(eq(x.T, "0")), st.mapHas(mt, x.T, k))
	v := st.mapGet(mt, x.T, k)
	v = ex.iteVal(has, v, zeroVal(mt.Elem()))
	if in.CommaOk {
		return Val{K: KTuple, Fs: []Val{v, term(has, tBool)}}
	}
	return v
}

func (ex *Exec) iteVal(c string, a, b Val) Val {
	switch a.K {
	case KTerm:
		return term(ite(c, a.T, ex.asTerm(b)), a.Typ)
	case KStruct, KSlice, KTuple:
		fs := make([]Val, len(a.Fs))
		for i := range fs {
			fs[i] = ex.iteVal(c, a.Fs[i], b.Fs[i])
		}
		return Val{K: a.K, Typ: a.Typ, Fs: fs}
	}
	panic(subsetErr{"iteVal"})
}

func (ex *Exec) rangeInstr(st *State, in *ssa.Range) Val {
	x := st.get(in.X)
	mt, ok := in.X.Type().Underlying().(*types.Map)
	if !ok {
		panic(subsetErr{"range over string"})
	}
	ex.guardCheckMap(st, x, in, false)
	ks := scalarSort(mt.Key())
	c := ex.newCell("visited", nil)
	// a declared symbol (not a literal), so that the loop cut can havoc it: see rehavoc
	v0 := ex.fresh("visited", arr(ks, "Bool"))
	st.assume(eq(v0, zeroTerm(arr(ks, "Bool"))))
	st.cells[c.ID] = Val{K: KTerm, T: v0}
	dom, ds := mapRegions(mt)
	d0 := ex.fresh("dom0", arr(ks, "Bool"))
	st.assume(eq(d0, ite(eq(x.T, "0"), zeroTerm(arr(ks, "Bool")), sel(st.region(dom, ds), x.T))))
	info := &iterInfo{mapRef: x.T, mapTyp: mt, visCell: c, dom0: d0}
	st.iters = append(append([]*iterInfo(nil), st.iters...), info)
	return Val{K: KIter, Meta: info}
}

func (ex *Exec) nextInstr(st *State, in *ssa.Next, k func(*State, Val)) {
	it := st.get(in.Iter)
	info := it.Meta.(*iterInfo)
	mt := info.mapTyp
	ks := scalarSort(mt.Key())
	vis := st.cells[info.visCell.ID].T
	// exhausted: every key that was present at the start and still is has been visited
	s2 := st.clone()
	kq := "k!q"
	s2.assume("(forall ((" + kq + " " + ks + ")) (=> (and (select " + info.dom0 + " " + kq + ") " + s2.mapHas(mt, info.mapRef, kq) + ") (select " + vis + " " + kq + ")))")
	done := Val{K: KTuple, Fs: []Val{term("false", tBool), zeroVal(mt.Key()), zeroVal(mt.Elem())}}
	// one more element
	key := ex.fresh("iterkey", ks)
	st.assume(not(eq(info.mapRef, "0")))
	st.assume(st.mapHas(mt, info.mapRef, key))
	st.assume(not(sel(vis, key)))
	val := st.mapGet(mt, info.mapRef, key)
	ex.assumeValFacts(st, val)
	st.cells[info.visCell.ID] = Val{K: KTerm, T: store(vis, key, "true")}
	if st.writtenCells != nil {
		st.writtenCells[info.visCell.ID] = true
	}
	more := Val{K: KTuple, Fs: []Val{term("true", tBool), term(key, mt.Key()), val}}
	ex.paths++
	k(st, more)
	k(s2, done)
}

// assumeValFacts: references read out of the heap are allocated or nil.
func (ex *Exec) assumeValFacts(st *State, v Val) {
	switch v.K {
	case KTerm:
		if v.Typ == nil {
			return
		}
		if _, lit := isIntLit(v.T); lit {
			return
		}
		switch v.Typ.Underlying().(type) {
		case *types.Pointer, *types.Map, *types.Chan:
			st.assume(or(eq(v.T, "0"), and("(> "+v.T+" 0)", sel(st.region("A", arr("Int", "Bool")), v.T))))
		}
	case KStruct, KTuple:
		for _, f := range v.Fs {
			ex.assumeValFacts(st, f)
		}
	}
}

// ---------------------------------------------------------------------------------------------
// Defers

func (ex *Exec) runDefers(st *State, k func(*State)) {
	fr := st.top()
	if len(fr.defers) == 0 {
		k(st)
		return
	}
	d := fr.defers[len(fr.defers)-1]
	fr.defers = fr.defers[:len(fr.defers)-1]
	ex.callVal(st, d.site, d.call, d.fn, d.args, func(st *State, _ Val) {
		ex.runDefers(st, k)
	})
}

// staleKeyInvariants: the loop at key has no invariants of its own. If the nearest enclosing function under contract has
// invariants under exactly one key whose loop no longer exists in that function (the loop was moved into a helper that
// is executed in place), they are tried for this loop: if they do not fit, the obligations fail as usual.
func (ex *Exec) staleKeyInvariants(st *State, key string) []clause {
	for i := len(st.frames) - 1; i >= 0; i-- {
		f := st.frames[i].fn
		if f.Parent() != nil {
			continue
		}
		var ct *Contract
		if f == ex.root {
			ct = ex.contract
		} else {
			ct = ex.w.contractFor(f)
		}
		if ct == nil || len(ct.loops) == 0 {
			continue
		}
		// keys of ct that name loops of f itself (or of functions still executed in place under that name)
		live := map[string]bool{}
		var mark func(fn *ssa.Function, depth int)
		seen := map[*ssa.Function]bool{}
		mark = func(fn *ssa.Function, depth int) {
			if seen[fn] || depth > 6 || fn.Blocks == nil {
				return
			}
			seen[fn] = true
			for _, b := range fn.Blocks {
				if isLoopHeader(b) {
					live[fmt.Sprintf("%s#%d", ex.w.contractBaseFn(fn), loopOrdinal(b))] = true
				}
				for _, in := range b.Instrs {
					switch x := in.(type) {
					case *ssa.Call:
						if sc := x.Common().StaticCallee(); sc != nil && strings.HasPrefix(fnPkgPath(sc), modulePath) {
							mark(sc, depth+1)
						}
					case *ssa.MakeClosure:
						if cf, ok := x.Fn.(*ssa.Function); ok {
							mark(cf, depth+1)
						}
					}
				}
			}
		}
		mark(f, 0)
		var stale []string
		for k := range ct.loops {
			if !live[k] {
				stale = append(stale, k)
			}
		}
		if len(stale) == 1 {
			ex.rebound = append(ex.rebound, stale[0]+" -> "+key)
			return ct.loops[stale[0]]
		}
		return nil
	}
	return nil
}
