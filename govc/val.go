package main

// Values, sorts and heap regions of the symbolic executor.

import (
	"fmt"
	"go/constant"
	"go/types"
	"sort"
	"strconv"
	"strings"

	"golang.org/x/tools/go/ssa"
)

type Kind int

const (
	KTerm    Kind = iota // scalar SMT term (Int, Bool, String, Real); references are Int, nil = 0
	KStruct              // explicit struct value, Fs = fields in declaration order
	KSlice               // Fs = [id, off, len] (each KTerm Int)
	KTuple               // Fs = components
	KCellPtr             // pointer to an executor-level cell (+ path into a struct value)
	KHeapPtr             // pointer into a heap object: Base ref term, Root struct type, Path
	KFunc                // static function or closure (Fn, Binds)
	KArray               // fixed array held in a cell (varargs): Fs = elements
	KIter                // map iterator
	KUnit                // no value
)

type Val struct {
	K     Kind
	Typ   types.Type
	T     string
	Fs    []Val
	Cell  *Cell
	Path  []int
	Base  string
	Root  types.Type
	Fn    *ssa.Function
	Binds []Val
	Meta  any
}

type Cell struct {
	ID   int
	Name string
	Typ  types.Type
}

// Iterator over a map (ssa.Range / ssa.Next).
type iterInfo struct {
	mapRef  string
	mapTyp  *types.Map
	visCell *Cell  // cell holding the visited-set array term
	dom0    string // domain at range start
	isStr   bool
}

func term(t string, typ types.Type) Val { return Val{K: KTerm, T: t, Typ: typ} }

var (
	tInt    = types.Typ[types.Int]
	tBool   = types.Typ[types.Bool]
	tString = types.Typ[types.String]
)

// ---------------------------------------------------------------------------------------------
// Sorts

// opaqueStruct reports whether a named struct type is treated as an opaque scalar (Int).
func opaqueStruct(t types.Type) bool {
	n, ok := types.Unalias(t).(*types.Named)
	if !ok {
		return false
	}
	if _, ok := n.Underlying().(*types.Struct); !ok {
		return false
	}
	obj := n.Obj()
	if obj.Pkg() == nil {
		return false
	}
	p := obj.Pkg().Path()
	if strings.HasPrefix(p, modulePath) {
		return false
	}
	switch p {
	case "github.com/metal-toolbox/auditevent", "github.com/elastic/go-libaudit/v2/aucoalesce":
		return false
	case "github.com/fsnotify/fsnotify":
		return obj.Name() != "Event" // Event{Name string; Op Op} is plain data
	case "github.com/elastic/go-libaudit/v2/auparse":
		return true
	}
	return true
}

func isStructT(t types.Type) bool {
	if opaqueStruct(t) {
		return false
	}
	_, ok := t.Underlying().(*types.Struct)
	return ok
}

func isSliceT(t types.Type) bool {
	_, ok := t.Underlying().(*types.Slice)
	return ok
}

// scalarSort returns the SMT sort of a scalar Go type ("" when the type is composite).
func scalarSort(t types.Type) string {
	if opaqueStruct(t) {
		return "Int"
	}
	switch u := t.Underlying().(type) {
	case *types.Basic:
		switch {
		case u.Info()&types.IsBoolean != 0:
			return "Bool"
		case u.Info()&types.IsString != 0:
			return "String"
		case u.Info()&types.IsInteger != 0:
			return "Int"
		case u.Info()&types.IsFloat != 0:
			return "Real"
		case u.Kind() == types.UnsafePointer || u.Kind() == types.UntypedNil:
			return "Int"
		}
		return "Int"
	case *types.Pointer, *types.Map, *types.Chan, *types.Signature, *types.Interface:
		return "Int"
	case *types.Struct, *types.Slice, *types.Tuple, *types.Array:
		return ""
	}
	return "Int"
}

type leaf struct {
	path string // dotted field path; slices contribute .#id .#off .#len
	typ  types.Type
	sort string
}

// leaves flattens a (possibly composite) type into scalar leaves.
func leaves(t types.Type) []leaf {
	var out []leaf
	var rec func(prefix string, t types.Type)
	rec = func(prefix string, t types.Type) {
		if s := scalarSort(t); s != "" {
			out = append(out, leaf{prefix, t, s})
			return
		}
		switch u := t.Underlying().(type) {
		case *types.Struct:
			for i := 0; i < u.NumFields(); i++ {
				p := u.Field(i).Name()
				if prefix != "" {
					p = prefix + "." + p
				}
				rec(p, u.Field(i).Type())
			}
		case *types.Slice:
			for _, c := range []string{"#id", "#off", "#len"} {
				p := c
				if prefix != "" {
					p = prefix + "." + c
				}
				out = append(out, leaf{p, tInt, "Int"})
			}
		default:
			panic(fmt.Sprintf("leaves: unsupported type %s", t))
		}
	}
	rec("", t)
	return out
}

func typeName(t types.Type) string {
	s := types.TypeString(t, func(p *types.Package) string { return p.Name() })
	s = strings.NewReplacer(" ", "", "*", "^", "[", "<", "]", ">", ",", ";", "(", "_", ")", "_", "{", "_", "}", "_", "/", "_").Replace(s)
	return s
}

// fieldRegion names the heap region of leaf `path` of struct type root.
func fieldRegion(root types.Type, path string) string {
	return "F!" + typeName(root) + "!" + path
}

// ---------------------------------------------------------------------------------------------
// SMT helpers

func smtStr(s string) string {
	var b strings.Builder
	b.WriteByte('"')
	for i := 0; i < len(s); i++ {
		c := s[i]
		switch {
		case c == '"':
			b.WriteString(`""`)
		case c == '\\':
			b.WriteString(`\u{5c}`)
		case c >= 0x20 && c < 0x7f:
			b.WriteByte(c)
		default:
			fmt.Fprintf(&b, `\u{%x}`, c)
		}
	}
	b.WriteByte('"')
	return b.String()
}

func smtInt(n int64) string {
	if n < 0 {
		return "(- " + strconv.FormatInt(-n, 10) + ")"
	}
	return strconv.FormatInt(n, 10)
}

func and(ts ...string) string {
	var xs []string
	for _, t := range ts {
		if t == "true" || t == "" {
			continue
		}
		if t == "false" {
			return "false"
		}
		xs = append(xs, t)
	}
	switch len(xs) {
	case 0:
		return "true"
	case 1:
		return xs[0]
	}
	return "(and " + strings.Join(xs, " ") + ")"
}

func or(ts ...string) string {
	var xs []string
	for _, t := range ts {
		if t == "false" || t == "" {
			continue
		}
		if t == "true" {
			return "true"
		}
		xs = append(xs, t)
	}
	switch len(xs) {
	case 0:
		return "false"
	case 1:
		return xs[0]
	}
	return "(or " + strings.Join(xs, " ") + ")"
}

func not(t string) string {
	switch t {
	case "true":
		return "false"
	case "false":
		return "true"
	}
	if strings.HasPrefix(t, "(not ") && balanced(t[5:len(t)-1]) {
		return t[5 : len(t)-1]
	}
	return "(not " + t + ")"
}

func balanced(s string) bool {
	d := 0
	inStr := false
	for i := 0; i < len(s); i++ {
		c := s[i]
		if inStr {
			if c == '"' {
				inStr = false
			}
			continue
		}
		switch c {
		case '"':
			inStr = true
		case '(':
			d++
		case ')':
			d--
			if d < 0 {
				return false
			}
		}
	}
	return d == 0
}

func implies(a, b string) string {
	if a == "true" {
		return b
	}
	if a == "false" || b == "true" {
		return "true"
	}
	return "(=> " + a + " " + b + ")"
}

func eq(a, b string) string {
	if a == b {
		return "true"
	}
	return "(= " + a + " " + b + ")"
}

func ite(c, a, b string) string {
	if c == "true" {
		return a
	}
	if c == "false" {
		return b
	}
	return "(ite " + c + " " + a + " " + b + ")"
}

func sel(a, i string) string      { return "(select " + a + " " + i + ")" }
func store(a, i, v string) string { return "(store " + a + " " + i + " " + v + ")" }

func zeroTerm(sort string) string {
	switch sort {
	case "Bool":
		return "false"
	case "String":
		return `""`
	case "Real":
		return "0.0"
	}
	if strings.HasPrefix(sort, "(Array ") {
		// (Array K V) -> const array of zero V
		k, v := arraySorts(sort)
		_ = k
		return "((as const " + sort + ") " + zeroTerm(v) + ")"
	}
	return "0"
}

// arraySorts splits "(Array K V)".
func arraySorts(s string) (string, string) {
	inner := s[len("(Array ") : len(s)-1]
	d := 0
	for i := 0; i < len(inner); i++ {
		switch inner[i] {
		case '(':
			d++
		case ')':
			d--
		case ' ':
			if d == 0 {
				return inner[:i], inner[i+1:]
			}
		}
	}
	panic("arraySorts: " + s)
}

func arr(k, v string) string { return "(Array " + k + " " + v + ")" }

func constTerm(c *ssa.Const) (string, bool) {
	t := c.Type()
	if c.Value == nil {
		s := scalarSort(t)
		if s == "" {
			return "", false
		}
		return zeroTerm(s), true
	}
	switch c.Value.Kind() {
	case constant.Bool:
		if constant.BoolVal(c.Value) {
			return "true", true
		}
		return "false", true
	case constant.String:
		return smtStr(constant.StringVal(c.Value)), true
	case constant.Int:
		if scalarSort(t) == "Real" {
			f, _ := constant.Float64Val(c.Value)
			return fmt.Sprintf("%f", f), true
		}
		if i, ok := constant.Int64Val(c.Value); ok {
			return smtInt(i), true
		}
		if u, ok := constant.Uint64Val(c.Value); ok {
			return strconv.FormatUint(u, 10), true
		}
		return c.Value.ExactString(), true
	case constant.Float:
		f, _ := constant.Float64Val(c.Value)
		if scalarSort(t) == "Int" {
			return smtInt(int64(f)), true
		}
		return fmt.Sprintf("%f", f), true
	}
	return "", false
}

func sortedKeys[V any](m map[string]V) []string {
	ks := make([]string, 0, len(m))
	for k := range m {
		ks = append(ks, k)
	}
	sort.Strings(ks)
	return ks
}
