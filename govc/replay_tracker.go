package main

import (
	"encoding/json"
	"fmt"
	"strings"
)

// Replay of correlator histories on the real sessionTracker (overlay test in package sessiontracker).
// A history is a list of operations; the harness reports, after every step, the events written so far
// and the number of tracked sessions and parked logins.

const trackerReplayTest = `package sessiontracker

import (
	"bytes"
	"encoding/json"
	"errors"
	"fmt"
	"os"
	"strings"
	"testing"
	"time"

	"github.com/elastic/go-libaudit/v2/aucoalesce"
	"github.com/elastic/go-libaudit/v2/auparse"
	"github.com/metal-toolbox/auditevent"

	"github.com/metal-toolbox/audito-maldito/internal/common"
)

type govcOp struct {
	Op      string // event | login | cleanup
	Session string
	Type    string // LOGIN CRED_DISP EXECVE
	PID     string
	LoginID string
	FailWrite bool
}

type govcW struct {
	buf  bytes.Buffer
	fail bool
}

func (w *govcW) Write(p []byte) (int, error) {
	if w.fail {
		return 0, errors.New("govc: injected write failure")
	}
	return w.buf.Write(p)
}

func TestGovcReplayTracker(t *testing.T) {
	var ops []govcOp
	if err := json.Unmarshal([]byte(os.Getenv("GOVC_REPLAY_INPUT")), &ops); err != nil {
		t.Fatal(err)
	}
	w := &govcW{}
	st := NewSessionTracker(auditevent.NewDefaultAuditEventWriter(w), nil)
	types := map[string]auparse.AuditMessageType{"LOGIN": auparse.AUDIT_LOGIN, "CRED_DISP": auparse.AUDIT_CRED_DISP, "EXECVE": auparse.AUDIT_EXECVE, "USER_END": auparse.AUDIT_USER_END}
	var steps []map[string]any
	for i, op := range ops {
		w.fail = op.FailWrite
		var err error
		switch op.Op {
		case "event":
			ev := &aucoalesce.Event{Session: op.Session, Type: types[op.Type], Result: "success", Timestamp: time.Unix(int64(1000+i), 0)}
			ev.Process.PID = op.PID
			ev.Summary.Action = fmt.Sprintf("step-%d", i)
			err = st.AuditdEvent(ev)
		case "login":
			src := auditevent.NewAuditEvent("UserLogin", auditevent.EventSource{Type: "IP", Value: "10.0.0." + op.LoginID}, "succeeded", map[string]string{"loggedAs": "user-" + op.LoginID, "userID": op.LoginID}, "sshd")
			pid := 0
			fmt.Sscan(op.PID, &pid)
			err = st.RemoteLogin(common.RemoteUserLogin{Source: src, PID: pid, CredUserID: op.LoginID})
		case "cleanup":
			st.DeleteUsersWithoutLoginsBefore(time.Now().Add(time.Hour))
			st.DeleteRemoteUserLoginsBefore(time.Now().Add(time.Hour))
		}
		var evs []map[string]any
		for _, l := range strings.Split(w.buf.String(), "\n") {
			if strings.TrimSpace(l) == "" {
				continue
			}
			var e map[string]any
			json.Unmarshal([]byte(l), &e)
			evs = append(evs, e)
		}
		s := map[string]any{"sessions": st.sessIDsToUsers.Len(), "parked": st.pidsToRULs.Len(), "events": evs}
		if err != nil {
			s["err"] = err.Error()
		}
		steps = append(steps, s)
	}
	b, _ := json.Marshal(steps)
	fmt.Println("GOVC-OBS " + string(b))
}
`

type trackerOp struct {
	Op        string
	Session   string `json:",omitempty"`
	Type      string `json:",omitempty"`
	PID       string `json:",omitempty"`
	LoginID   string `json:",omitempty"`
	FailWrite bool   `json:",omitempty"`
}

type trackerStep struct {
	Sessions int              `json:"sessions"`
	Parked   int              `json:"parked"`
	Events   []map[string]any `json:"events"`
	Err      string           `json:"err"`
}

func replayTrackerHistory(repo string, ops []trackerOp) ([]trackerStep, string, error) {
	ib, _ := json.Marshal(ops)
	out, err := runOverlayTest(repo, "processors/auditd/sessiontracker", trackerReplayTest, "TestGovcReplayTracker", []string{"GOVC_REPLAY_INPUT=" + string(ib)})
	for _, l := range strings.Split(out, "\n") {
		if i := strings.Index(l, "GOVC-OBS "); i >= 0 {
			var steps []trackerStep
			if e := json.Unmarshal([]byte(l[i+9:]), &steps); e == nil {
				return steps, out, nil
			}
		}
	}
	if err == nil {
		err = fmt.Errorf("no observation in replay output")
	}
	return nil, out, err
}

func init() {
	replayAdapters["(*sessionTracker).RemoteLogin"] = replayTrackerObligation
	replayAdapters["(*sessionTracker).AuditdEvent"] = replayTrackerObligation
}

// replayTrackerObligation: histories for the invariant clauses that have no solver model (quantified goals).
func replayTrackerObligation(w *World, rp *Replay, id string, o *Obligation, repo string) {
	switch {
	case strings.Contains(o.Name, "/atomic:") || strings.Contains(o.Name, "/guard:") || strings.Contains(o.Name, "/lockorder:"):
		replayAtomicity(w, rp, id, o, repo)
	case id == "C09" || strings.Contains(o.Name, "ensures:bind"):
		// clause "a tracked session whose credential-disposal record was processed is not bound":
		// short session whose records all precede the login line, then the PID is reused.
		ops := []trackerOp{
			{Op: "event", Session: "1", Type: "LOGIN", PID: "100"},
			{Op: "event", Session: "1", Type: "CRED_DISP", PID: "100"},
			{Op: "login", PID: "100", LoginID: "1"},
			{Op: "event", Session: "2", Type: "LOGIN", PID: "100"},
			{Op: "login", PID: "100", LoginID: "2"},
			{Op: "event", Session: "2", Type: "EXECVE", PID: "101"},
		}
		steps, log, err := replayTrackerHistory(repo, ops)
		rp.Inputs = map[string]any{"history": ops, "note": "history derived from the failed invariant clause (the solvers return no model for the quantified goal)"}
		if err != nil {
			rp.ReplayLog = trunc(log, 3000)
			rp.Notes = append(rp.Notes, "replay did not run: "+err.Error())
			return
		}
		rp.ReplayLog = trunc(mustJSON(steps), 6000)
		if len(steps) >= 3 && steps[2].Sessions != 0 {
			rp.Confirmed = true
			rp.Notes = append(rp.Notes, fmt.Sprintf("C09: after the late login released session 1's queue (LOGIN, CRED_DISP: %d events written) the tracker still holds %d session(s): the ended session is never released, and a later login with the reused PID 100 can be bound to it", len(steps[2].Events), steps[2].Sessions))
		}
		if n := len(steps); n == 6 {
			last := steps[5].Events
			found := false
			for _, e := range last {
				md, _ := e["metadata"].(map[string]any)
				subj, _ := e["subjects"].(map[string]any)
				if md != nil && md["auditId"] == "2" && subj != nil && subj["userID"] == "2" {
					found = true
				}
			}
			if !found {
				rp.Confirmed = true
				rp.Notes = append(rp.Notes, "C09: in this run the second login (reused PID) was bound to the ended session 1: session 2's events were not emitted with the new identity")
			}
		}
		if !rp.Confirmed {
			rp.Notes = append(rp.Notes, "the history does not violate the property on the real code")
		}
	default:
		rp.Notes = append(rp.Notes, "no counterexample model for this obligation: reported without a failing input")
	}
}
