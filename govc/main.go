package main

import (
	"flag"
	"fmt"
	"os"
	"strings"
)

func main() {
	if len(os.Args) < 2 {
		fmt.Println("usage: govc verify|check|dump ...")
		os.Exit(2)
	}
	switch os.Args[1] {
	case "verify":
		cmdVerify(os.Args[2:])
	case "check":
		cmdCheck(os.Args[2:])
	case "names":
		cmdNames(os.Args[2:])
	case "replay-conc":
		o, log, err := replayConc("/repo", os.Args[2])
		fmt.Println(o, err)
		if o == nil {
			fmt.Println(trunc(log, 3000))
		} else {
			fmt.Printf("%+v\n", *o)
		}
	default:
		fmt.Println("unknown command")
		os.Exit(2)
	}
}

func cmdVerify(args []string) {
	fs := flag.NewFlagSet("verify", flag.ExitOnError)
	repo := fs.String("repo", "/repo", "repository")
	timeout := fs.Int("timeout", 20, "per-obligation timeout (s)")
	verbose := fs.Bool("v", false, "verbose")
	keep := fs.String("work", "", "work dir")
	conc := fs.Bool("conc", false, "concurrency mode")
	fs.Parse(args)
	w, err := loadWorld(*repo)
	if err != nil {
		fmt.Println("load:", err)
		os.Exit(2)
	}
	work := *keep
	if work == "" {
		work, _ = os.MkdirTemp("", "govc")
		defer os.RemoveAll(work)
	}
	for _, key := range fs.Args() {
		if !strings.HasPrefix(key, "github.com/") {
			key = modulePath + "/" + key
		}
		fns := w.findFuncs(key)
		if len(fns) == 0 {
			fmt.Println("no such function:", key)
			continue
		}
		for _, fn := range fns {
			res := w.verifyFunc(fn, w.contractFor(fn), execMode{concurrency: *conc})
			solveAll(res.script, res.Obls, solveOpts{timeoutS: *timeout, workDir: work})
			fmt.Println(res.summary())
			for _, o := range res.Obls {
				if *verbose || o.Status != "discharged" {
					fmt.Printf("  %-10s %-70s %s %.2fs vcs=%d %s\n", o.Status, o.Name, o.Solver, o.TimeS, len(o.VCs), trunc(o.Detail, 300))
					if *verbose && o.Status != "discharged" {
						for _, k := range sortedKeys(o.Inputs) {
							fmt.Printf("      input %s = %s\n", k, trunc(o.Inputs[k], 120))
						}
						fmt.Printf("      trace %v\n", o.Trace)
					}
				}
			}
			if *verbose {
				fmt.Println("  inlined:", res.Inlined)
				fmt.Println("  externs:", res.Externs)
				fmt.Println("  contracts:", res.Contracts)
				for _, b := range res.Blocking {
					fmt.Printf("  blocking: %+v\n", b)
				}
			}
		}
	}
}

func trunc(s string, n int) string {
	if len(s) > n {
		return s[:n] + "..."
	}
	return s
}
