package main

import (
	"encoding/json"
	"fmt"
	"strings"
)

// Replay of lock-discipline counterexamples for the session tracker. The "counterexample" of a failed
// atomicity obligation is a pair of critical sections of one operation; the replay parks the operation in
// the gap between them and runs the conflicting operations there. No scheduling hook is needed: the
// tracker logs a debug message in each gap, and a zap hook on the logger passed to NewSessionTracker
// runs the other deliveries at exactly that point (deterministic, on the real code).

const concReplayTest = `package sessiontracker

import (
	"bytes"
	"encoding/json"
	"fmt"
	"os"
	"strings"
	"testing"
	"time"

	"github.com/elastic/go-libaudit/v2/aucoalesce"
	"github.com/elastic/go-libaudit/v2/auparse"
	"github.com/metal-toolbox/auditevent"
	"go.uber.org/zap"
	"go.uber.org/zap/zapcore"

	"github.com/metal-toolbox/audito-maldito/internal/common"
)

func govcEvent(ses string, typ auparse.AuditMessageType, pid string) *aucoalesce.Event {
	ev := &aucoalesce.Event{Session: ses, Type: typ, Result: "success", Timestamp: time.Unix(1000, 0)}
	ev.Process.PID = pid
	return ev
}

func TestGovcReplayConc(t *testing.T) {
	scenario := os.Getenv("GOVC_REPLAY_INPUT")
	var buf bytes.Buffer
	var st *sessionTracker
	fired := false
	inGap := func() {
		// deliveries of the other goroutine, run inside the gap
		switch scenario {
		case "login-gap":
			_ = st.AuditdEvent(govcEvent("1", auparse.AUDIT_LOGIN, "100"))
			_ = st.AuditdEvent(govcEvent("1", auparse.AUDIT_EXECVE, "101"))
		case "event-gap":
			src := auditevent.NewAuditEvent("UserLogin", auditevent.EventSource{Type: "IP", Value: "10.0.0.1"}, "succeeded", map[string]string{"loggedAs": "u", "userID": "k"}, "sshd")
			_ = st.RemoteLogin(common.RemoteUserLogin{Source: src, PID: 100, CredUserID: "k"})
		}
	}
	cfg := zap.NewDevelopmentConfig()
	cfg.Level = zap.NewAtomicLevelAt(zap.DebugLevel)
	cfg.OutputPaths = []string{os.DevNull}
	cfg.ErrorOutputPaths = []string{os.DevNull}
	lg, err := cfg.Build(zap.Hooks(func(e zapcore.Entry) error {
		gapMsg := map[string]string{"login-gap": "no matching audit session found", "event-gap": "no existing remote user login for new audit session"}[scenario]
		if !fired && strings.Contains(e.Message, gapMsg) {
			fired = true
			done := make(chan struct{})
			go func() { inGap(); close(done) }()
			select {
			case <-done:
			case <-time.After(2 * time.Second):
				// the other deliveries are blocked by a lock held across the gap: the operation is atomic
			}
		}
		return nil
	}))
	if err != nil {
		t.Fatal(err)
	}
	st = NewSessionTracker(auditevent.NewDefaultAuditEventWriter(&buf), lg.Sugar())
	switch scenario {
	case "login-gap":
		src := auditevent.NewAuditEvent("UserLogin", auditevent.EventSource{Type: "IP", Value: "10.0.0.1"}, "succeeded", map[string]string{"loggedAs": "u", "userID": "k"}, "sshd")
		_ = st.RemoteLogin(common.RemoteUserLogin{Source: src, PID: 100, CredUserID: "k"})
	case "event-gap":
		_ = st.AuditdEvent(govcEvent("1", auparse.AUDIT_LOGIN, "100"))
	}
	time.Sleep(2500 * time.Millisecond) // let parked deliveries finish on an atomic implementation
	n := 0
	for _, l := range strings.Split(buf.String(), "\n") {
		if strings.TrimSpace(l) != "" {
			n++
		}
	}
	b, _ := json.Marshal(map[string]any{"gap_reached": fired, "events": n, "sessions": st.sessIDsToUsers.Len(), "parked": st.pidsToRULs.Len()})
	fmt.Println("GOVC-OBS " + string(b))
}
`

type concObs struct {
	GapReached bool `json:"gap_reached"`
	Events     int  `json:"events"`
	Sessions   int  `json:"sessions"`
	Parked     int  `json:"parked"`
}

func replayConc(repo, scenario string) (*concObs, string, error) {
	out, err := runOverlayTest(repo, "processors/auditd/sessiontracker", concReplayTest, "TestGovcReplayConc", []string{"GOVC_REPLAY_INPUT=" + scenario})
	for _, l := range strings.Split(out, "\n") {
		if i := strings.Index(l, "GOVC-OBS "); i >= 0 {
			var o concObs
			if e := json.Unmarshal([]byte(l[i+9:]), &o); e == nil {
				return &o, out, nil
			}
		}
	}
	if err == nil {
		err = fmt.Errorf("no observation in replay output")
	}
	return nil, out, err
}

// replayAtomicity: a login and the LOGIN record it matches, delivered concurrently.
func replayAtomicity(w *World, rp *Replay, id string, o *Obligation, repo string) {
	scenario := "login-gap"
	if strings.Contains(o.Name, "AuditdEvent") {
		scenario = "event-gap"
	}
	obs, log, err := replayConc(repo, scenario)
	rp.Inputs = map[string]any{"schedule": map[string]string{
		"login-gap": "RemoteLogin(pid 100) is parked after its scan of the sessions and before it parks the login; meanwhile AuditdEvent(LOGIN ses 1 pid 100), AuditdEvent(EXECVE ses 1) run to completion; RemoteLogin resumes",
		"event-gap": "AuditdEvent(LOGIN ses 1 pid 100) is parked after finding neither a session nor a parked login and before it stores the new session; meanwhile RemoteLogin(pid 100) runs to completion; AuditdEvent resumes",
	}[scenario]}
	if err != nil {
		rp.ReplayLog = trunc(log, 3000)
		rp.Notes = append(rp.Notes, "replay did not run: "+err.Error())
		return
	}
	rp.ReplayLog = mustJSON(obs)
	// every sequential order of {login, LOGIN record (+ follow-up)} ends with the session bound and its events emitted
	if obs.GapReached && obs.Sessions == 1 && obs.Parked == 1 && obs.Events == 0 {
		rp.Confirmed = true
		rp.Notes = append(rp.Notes, "C03: the real tracker ends with the login parked AND the session waiting for it (1 session, 1 parked login, 0 events): both halves wait for each other, which no sequential order of the same deliveries produces (every order binds the session and emits its events)")
	} else {
		rp.Notes = append(rp.Notes, "the schedule does not violate the property on the real code")
	}
}
