package main

// Specification language: parser and evaluator.
//
//   expr  := quantified | binary
//   quant := ("forall"|"exists") ident type {"," ident type} "::" expr
//   ops   := <==>  ==>  ||  &&  == != < <= > >=  + -  * / %  ! -  postfix . [] ()
//   atoms := ident | int | "string" | true | false | nil | old(e) | pre(e) | (e)

import (
	"fmt"
	"go/types"
	"strconv"
	"strings"
	"unicode"

	"golang.org/x/tools/go/ssa"
)

type node struct {
	op   string // lit-int lit-str lit-bool nil ident sel index call unary binary forall exists
	name string
	args []*node
	vars []qvar
	src  string
}

type qvar struct{ name, typ string }

type tok struct {
	k string // id num str op eof
	s string
}

func lex(src string) ([]tok, error) {
	var out []tok
	i := 0
	for i < len(src) {
		c := src[i]
		switch {
		case c == ' ' || c == '\t' || c == '\n' || c == '\r':
			i++
		case unicode.IsLetter(rune(c)) || c == '_':
			j := i
			for j < len(src) && (unicode.IsLetter(rune(src[j])) || unicode.IsDigit(rune(src[j])) || src[j] == '_') {
				j++
			}
			out = append(out, tok{"id", src[i:j]})
			i = j
		case unicode.IsDigit(rune(c)):
			j := i
			for j < len(src) && unicode.IsDigit(rune(src[j])) {
				j++
			}
			out = append(out, tok{"num", src[i:j]})
			i = j
		case c == '"':
			j := i + 1
			var b strings.Builder
			for j < len(src) && src[j] != '"' {
				if src[j] == '\\' && j+1 < len(src) {
					j++
					switch src[j] {
					case 'n':
						b.WriteByte('\n')
					case 't':
						b.WriteByte('\t')
					default:
						b.WriteByte(src[j])
					}
				} else {
					b.WriteByte(src[j])
				}
				j++
			}
			if j >= len(src) {
				return nil, fmt.Errorf("unterminated string")
			}
			out = append(out, tok{"str", b.String()})
			i = j + 1
		default:
			ops := []string{"<==>", "==>", "::", "==", "!=", "<=", ">=", "&&", "||", "++", "..", "(", ")", "[", "]", ".", ",", "<", ">", "+", "-", "*", "/", "%", "!", "#", ":"}
			matched := false
			for _, o := range ops {
				if strings.HasPrefix(src[i:], o) {
					out = append(out, tok{"op", o})
					i += len(o)
					matched = true
					break
				}
			}
			if !matched {
				return nil, fmt.Errorf("unexpected character %q", c)
			}
		}
	}
	out = append(out, tok{"eof", ""})
	return out, nil
}

type parser struct {
	toks []tok
	p    int
}

func parseSpec(src string) (n *node, err error) {
	toks, err := lex(src)
	if err != nil {
		return nil, err
	}
	ps := &parser{toks: toks}
	defer func() {
		if r := recover(); r != nil {
			if s, ok := r.(string); ok {
				err = fmt.Errorf("%s in %q", s, src)
				return
			}
			panic(r)
		}
	}()
	n = ps.expr(0)
	if ps.peek().k != "eof" {
		panic("trailing tokens at " + ps.peek().s)
	}
	n.src = src
	return n, nil
}

func (p *parser) peek() tok { return p.toks[p.p] }
func (p *parser) next() tok { t := p.toks[p.p]; p.p++; return t }
func (p *parser) isOp(s string) bool {
	t := p.peek()
	return t.k == "op" && t.s == s
}
func (p *parser) expect(s string) {
	if !p.isOp(s) {
		panic("expected " + s + " got " + p.peek().s)
	}
	p.p++
}

var binPrec = map[string]int{"<==>": 1, "==>": 2, "||": 3, "&&": 4, "==": 5, "!=": 5, "<": 5, "<=": 5, ">": 5, ">=": 5, "+": 6, "-": 6, "++": 6, "*": 7, "/": 7, "%": 7}

func (p *parser) expr(min int) *node {
	t := p.peek()
	if t.k == "id" && (t.s == "forall" || t.s == "exists") {
		p.next()
		n := &node{op: t.s}
		for {
			name := p.next()
			typ := p.next()
			if name.k != "id" || typ.k != "id" {
				panic("bad quantifier binding")
			}
			n.vars = append(n.vars, qvar{name.s, typ.s})
			if p.isOp(",") {
				p.next()
				continue
			}
			break
		}
		p.expect("::")
		n.args = []*node{p.expr(0)}
		return n
	}
	lhs := p.unary()
	for {
		t := p.peek()
		if t.k != "op" {
			break
		}
		prec, ok := binPrec[t.s]
		if !ok || prec < min {
			break
		}
		p.next()
		var rhs *node
		if t.s == "==>" {
			rhs = p.expr(prec) // right associative
		} else {
			rhs = p.expr(prec + 1)
		}
		lhs = &node{op: "binary", name: t.s, args: []*node{lhs, rhs}}
	}
	return lhs
}

func (p *parser) unary() *node {
	if p.isOp("!") {
		p.next()
		return &node{op: "unary", name: "!", args: []*node{p.unary()}}
	}
	if p.isOp("-") {
		p.next()
		return &node{op: "unary", name: "-", args: []*node{p.unary()}}
	}
	return p.postfix()
}

func (p *parser) postfix() *node {
	n := p.atom()
	for {
		switch {
		case p.isOp("."):
			p.next()
			t := p.next()
			if t.k != "id" && !(t.k == "op" && t.s == "*") {
				panic("bad selector")
			}
			n = &node{op: "sel", name: t.s, args: []*node{n}}
		case p.isOp("["):
			p.next()
			idx := p.expr(0)
			p.expect("]")
			n = &node{op: "index", args: []*node{n, idx}}
		case p.isOp("("):
			p.next()
			c := &node{op: "call", args: []*node{n}}
			for !p.isOp(")") {
				c.args = append(c.args, p.expr(0))
				if p.isOp(",") {
					p.next()
				}
			}
			p.expect(")")
			n = c
		default:
			return n
		}
	}
}

func (p *parser) atom() *node {
	t := p.next()
	switch t.k {
	case "num":
		return &node{op: "lit-int", name: t.s}
	case "str":
		return &node{op: "lit-str", name: t.s}
	case "id":
		switch t.s {
		case "true", "false":
			return &node{op: "lit-bool", name: t.s}
		case "nil":
			return &node{op: "nil"}
		}
		return &node{op: "ident", name: t.s}
	case "op":
		if t.s == "(" {
			n := p.expr(0)
			p.expect(")")
			return n
		}
	}
	panic("unexpected token " + t.s)
}

// ---------------------------------------------------------------------------------------------
// Evaluation

type env struct {
	vars   map[string]Val
	parent *env
	result *Val // value of `result`
	fn     *ssa.Function
	frame  *Frame // frame whose locals are in scope (nil: search all)
}

func (e *env) lookup(name string) (Val, bool) {
	for x := e; x != nil; x = x.parent {
		if v, ok := x.vars[name]; ok {
			return v, true
		}
	}
	return Val{}, false
}

func (ex *Exec) evalBool(st *State, n *node, e *env) string {
	v := ex.eval(st, n, e)
	if v.K != KTerm {
		panic(subsetErr{"spec expression is not boolean: " + n.src})
	}
	return v.T
}

type specErr struct{ msg string }

func specFail(f string, a ...any) { panic(subsetErr{"contract-binding: " + fmt.Sprintf(f, a...)}) }

var bvCtr int

func (ex *Exec) eval(st *State, n *node, e *env) Val {
	switch n.op {
	case "lit-int":
		return term(n.name, tInt)
	case "lit-str":
		return term(smtStr(n.name), tString)
	case "lit-bool":
		return term(n.name, tBool)
	case "nil":
		return Val{K: KTerm, T: "0", Meta: "nil"}
	case "ident":
		return ex.evalIdent(st, n.name, e)
	case "unary":
		x := ex.eval(st, n.args[0], e)
		if n.name == "!" {
			return term(not(x.T), tBool)
		}
		return term("(- "+x.T+")", tInt)
	case "binary":
		return ex.evalBinary(st, n, e)
	case "forall", "exists":
		ne := &env{vars: map[string]Val{}, parent: e}
		var binds []string
		for _, qv := range n.vars {
			bvCtr++
			name := fmt.Sprintf("%s!b%d", qv.name, bvCtr)
			var typ types.Type
			sort := "Int"
			switch qv.typ {
			case "int":
				typ = tInt
			case "string":
				typ, sort = tString, "String"
			case "bool":
				typ, sort = tBool, "Bool"
			case "ref":
				typ = nil
			default:
				specFail("unknown quantifier type %s", qv.typ)
			}
			ne.vars[qv.name] = Val{K: KTerm, T: name, Typ: typ}
			binds = append(binds, "("+name+" "+sort+")")
		}
		st.quantDepth++
		body := ex.evalBool(st, n.args[0], ne)
		st.quantDepth--
		return term("("+n.op+" ("+strings.Join(binds, " ")+") "+body+")", tBool)
	case "sel":
		x := ex.eval(st, n.args[0], e)
		return ex.evalSel(st, x, n.name, n)
	case "index":
		x := ex.eval(st, n.args[0], e)
		i := ex.eval(st, n.args[1], e)
		return ex.evalIndex(st, x, i, n)
	case "call":
		return ex.evalCall(st, n, e)
	}
	specFail("cannot evaluate %s", n.op)
	return Val{}
}

func (ex *Exec) evalIdent(st *State, name string, e *env) Val {
	if e != nil {
		if v, ok := e.lookup(name); ok {
			return v
		}
		if name == "result" {
			for x := e; x != nil; x = x.parent {
				if x.result != nil {
					return *x.result
				}
			}
		}
	}
	if v, ok := ex.entryVals[name]; ok {
		return v
	}
	// ghost state
	switch name {
	case "out":
		return Val{K: KTerm, T: "out", Meta: ghostSeq{"out"}}
	case "cb":
		return Val{K: KTerm, T: "cb", Meta: ghostSeq{"cb"}}
	case "pushlen":
		return term(st.region("G!push#len", "Int"), tInt)
	case "lastreader":
		return Val{K: KTerm, T: st.region("G!rdlast", "Int")}
	case "rdcount":
		return term(st.region("G!rdcount", "Int"), tInt)
	case "visited":
		if len(st.iters) == 0 {
			specFail("no active map iteration for `visited`")
		}
		it := st.iters[len(st.iters)-1]
		return Val{K: KTerm, T: st.cells[it.visCell.ID].T, Meta: ghostSet{scalarSort(it.mapTyp.Key())}}
	case "wfailed":
		return term(st.region("G!wfailed", "Bool"), tBool)
	case "ctrsum":
		return term(st.region("G!ctrsum", "Int"), tInt)
	case "clock":
		return term(st.region("G!clock", "Int"), tInt)
	}
	if strings.HasPrefix(name, "g_") {
		if s, ok := ex.w.ghostVars[name]; ok {
			return Val{K: KTerm, T: st.region("G!"+name, s), Meta: ghostOfSort(s), Typ: sortType(s)}
		}
	}
	// locals by source name: innermost frame first
	for i := len(st.frames) - 1; i >= 0; i-- {
		fr := st.frames[i]
		if v, ok := ex.localByName(st, fr, name); ok {
			return v
		}
	}
	// package-level constants / globals of the root function's package
	if ex.root != nil && ex.root.Pkg != nil {
		if v, ok := ex.pkgMember(st, ex.root.Pkg, name); ok {
			return v
		}
	}
	specFail("unknown identifier %s", name)
	return Val{}
}

func ghostOfSort(s string) any {
	if strings.HasPrefix(s, "(Array ") {
		k, v := arraySorts(s)
		return ghostArr{k, v}
	}
	return nil
}

type ghostSeq struct{ name string }
type ghostSet struct{ keySort string }
type ghostArr struct{ k, v string }
type pkgRef struct{ pkg *ssa.Package }

func (ex *Exec) localByName(st *State, fr *Frame, name string) (Val, bool) {
	// named Alloc in the frame's function (or, for closures, captured variables)
	for v, val := range fr.vals {
		if a, ok := v.(*ssa.Alloc); ok && a.Comment == name && val.K == KCellPtr {
			if cv, ok := st.cells[val.Cell.ID]; ok {
				return cv, true
			}
		}
	}
	for i, fv := range fr.fn.FreeVars {
		if fv.Name() == name && fr.binds[i].K == KCellPtr {
			if cv, ok := st.cells[fr.binds[i].Cell.ID]; ok {
				return cv, true
			}
		}
	}
	// the variable was renamed since the contracts were written (specs/names.json): same position, same type
	if now := ex.w.renamed(fr.fn, name); now != "" && now != name {
		return ex.localByName(st, fr, now)
	}
	if ex.inInvariant {
		if now := ex.w.uniqueByRecordedType(fr.fn, name); now != "" && now != name {
			return ex.localByName(st, fr, now)
		}
	}
	return Val{}, false
}

func (ex *Exec) pkgMember(st *State, pkg *ssa.Package, name string) (Val, bool) {
	m := pkg.Members[name]
	switch x := m.(type) {
	case *ssa.NamedConst:
		if t, ok := constTerm(x.Value); ok {
			return term(t, x.Type()), true
		}
	case *ssa.Global:
		return ex.loadGlobal(st, x, nil), true
	}
	// imported package name?
	for _, imp := range pkg.Pkg.Imports() {
		if imp.Name() == name {
			if sp := ex.w.prog.Package(imp); sp != nil {
				return Val{K: KUnit, Meta: pkgRef{sp}}, true
			}
		}
	}
	return Val{}, false
}

func derefType(t types.Type) types.Type {
	if t == nil {
		return nil
	}
	if p, ok := t.Underlying().(*types.Pointer); ok {
		return p.Elem()
	}
	return t
}

func (ex *Exec) evalSel(st *State, x Val, name string, n *node) Val {
	if pr, ok := x.Meta.(pkgRef); ok {
		v, ok := ex.pkgMember(st, pr.pkg, name)
		if !ok {
			specFail("unknown package member %s", name)
		}
		return v
	}
	if ge, ok := x.Meta.(ghostElem); ok {
		return ex.ghostField(st, ge, name)
	}
	if os, ok := x.Meta.(outStruct); ok {
		return ex.outPath(st, os.idx, ex.auditEventT(), os.path+"."+name, nil)
	}
	switch x.K {
	case KHeapPtr:
		if x.Root != nil {
			path, lt := pathOf(x.Root, x.Path)
			if s, ok := lt.Underlying().(*types.Struct); ok {
				for i := 0; i < s.NumFields(); i++ {
					if s.Field(i).Name() == name {
						return st.loadAt(x.Root, path+"."+name, s.Field(i).Type(), x.Base)
					}
				}
			}
		}
		specFail("selector %s on interior pointer", name)
	case KSlice:
		switch name {
		case "id":
			return x.Fs[0]
		case "off":
			return x.Fs[1]
		case "len":
			return x.Fs[2]
		}
		specFail("slice has no component %s", name)
	case KStruct:
		s := x.Typ.Underlying().(*types.Struct)
		for i := 0; i < s.NumFields(); i++ {
			if s.Field(i).Name() == name {
				return x.Fs[i]
			}
		}
		specFail("no field %s in %s", name, x.Typ)
	case KTerm:
		if x.Typ == nil {
			specFail("selector %s on untyped reference (use a typed accessor)", name)
		}
		et := derefType(x.Typ)
		s, ok := et.Underlying().(*types.Struct)
		if !ok || opaqueStruct(et) {
			specFail("selector %s on non-struct %s", name, x.Typ)
		}
		for i := 0; i < s.NumFields(); i++ {
			if s.Field(i).Name() == name {
				return st.loadAt(et, name, s.Field(i).Type(), x.T)
			}
		}
		specFail("no field %s in %s", name, et)
	}
	specFail("selector %s on value of kind %d", name, x.K)
	return Val{}
}

type ghostElem struct {
	seq string
	idx string
	ch  string
	et  types.Type
}

func chanElem(t types.Type) types.Type {
	if t == nil {
		return nil
	}
	if c, ok := t.Underlying().(*types.Chan); ok {
		return c.Elem()
	}
	return nil
}

func (ex *Exec) evalIndex(st *State, x, i Val, n *node) Val {
	switch m := x.Meta.(type) {
	case ghostSeq:
		return Val{K: KUnit, Meta: ghostElem{seq: m.name, idx: i.T}}
	case ghostSet:
		return term(sel(x.T, i.T), tBool)
	case ghostArr:
		v := Val{K: KTerm, T: sel(x.T, i.T)}
		switch m.v {
		case "Int":
			v.Typ = tInt
		case "Bool":
			v.Typ = tBool
		case "String":
			v.Typ = tString
		default:
			v.Meta = ghostOfSort(m.v)
		}
		return v
	case mapSnap:
		return term(sel(m.val, i.T), m.elem)
	}
	switch x.K {
	case KSlice:
		return st.sliceGet(x, i.T)
	case KTerm:
		if x.Typ != nil {
			if mt, ok := x.Typ.Underlying().(*types.Map); ok {
				return st.mapGet(mt, x.T, i.T)
			}
			if scalarSort(x.Typ) == "String" {
				return term("(str.to_code (str.at "+x.T+" "+i.T+"))", tInt)
			}
		}
	}
	specFail("index on unsupported value in %s", n.src)
	return Val{}
}

func (ex *Exec) evalBinary(st *State, n *node, e *env) Val {
	op := n.name
	switch op {
	case "&&":
		return term(and(ex.evalBool(st, n.args[0], e), ex.evalBool(st, n.args[1], e)), tBool)
	case "||":
		return term(or(ex.evalBool(st, n.args[0], e), ex.evalBool(st, n.args[1], e)), tBool)
	case "==>":
		return term(implies(ex.evalBool(st, n.args[0], e), ex.evalBool(st, n.args[1], e)), tBool)
	case "<==>":
		return term(eq(ex.evalBool(st, n.args[0], e), ex.evalBool(st, n.args[1], e)), tBool)
	}
	a := ex.eval(st, n.args[0], e)
	b := ex.eval(st, n.args[1], e)
	switch op {
	case "==", "!=":
		c := ex.valEq(a, b)
		if op == "!=" {
			c = not(c)
		}
		return term(c, tBool)
	case "<", "<=", ">", ">=":
		if a.Typ != nil && scalarSort(a.Typ) == "String" {
			switch op {
			case "<":
				return term("(str.< "+a.T+" "+b.T+")", tBool)
			case "<=":
				return term("(str.<= "+a.T+" "+b.T+")", tBool)
			case ">":
				return term("(str.< "+b.T+" "+a.T+")", tBool)
			default:
				return term("(str.<= "+b.T+" "+a.T+")", tBool)
			}
		}
		return term("("+op+" "+a.T+" "+b.T+")", tBool)
	case "+":
		if a.Typ != nil && scalarSort(a.Typ) == "String" {
			return term("(str.++ "+a.T+" "+b.T+")", tString)
		}
		return term("(+ "+a.T+" "+b.T+")", tInt)
	case "++":
		return term("(str.++ "+a.T+" "+b.T+")", tString)
	case "-":
		return term("(- "+a.T+" "+b.T+")", tInt)
	case "*":
		return term("(* "+a.T+" "+b.T+")", tInt)
	case "/":
		return term("(div "+a.T+" "+b.T+")", tInt)
	case "%":
		return term("(mod "+a.T+" "+b.T+")", tInt)
	}
	specFail("binary operator %s", op)
	return Val{}
}

func (ex *Exec) valEq(a, b Val) string {
	isNil := func(v Val) bool { return v.Meta == "nil" }
	switch {
	case a.K == KSlice && isNil(b):
		return eq(a.Fs[0].T, "0")
	case b.K == KSlice && isNil(a):
		return eq(b.Fs[0].T, "0")
	case a.K == KTerm && b.K == KTerm:
		return eq(a.T, b.T)
	case a.K == KHeapPtr && isNil(b):
		return eq(a.Base, "0")
	case b.K == KHeapPtr && isNil(a):
		return eq(b.Base, "0")
	case (a.K == KStruct || a.K == KSlice || a.K == KTuple) && a.K == b.K && len(a.Fs) == len(b.Fs):
		var cs []string
		for i := range a.Fs {
			cs = append(cs, ex.valEq(a.Fs[i], b.Fs[i]))
		}
		return and(cs...)
	case a.K == KFunc || b.K == KFunc:
		return eq(ex.asTerm(a), ex.asTerm(b))
	}
	specFail("equality between incompatible values")
	return ""
}

type mapSnap struct {
	dom, val string
	elem     types.Type
}

func (ex *Exec) evalCall(st *State, n *node, e *env) Val {
	fn := n.args[0]
	if fn.op != "ident" {
		specFail("call of non-identifier in %s", n.src)
	}
	args := n.args[1:]
	arg := func(i int) Val {
		if i >= len(args) {
			specFail("%s: missing argument %d", fn.name, i)
		}
		return ex.eval(st, args[i], e)
	}
	switch fn.name {
	case "old":
		s2 := st.withHeap(ex.entryHeap)
		v := ex.eval(s2, args[0], e)
		st.adopt(s2)
		return v
	case "pre":
		if st.preHeap == nil {
			specFail("pre() outside a loop")
		}
		s2 := st.withHeap(st.preHeap)
		v := ex.eval(s2, args[0], e)
		st.adopt(s2)
		return v
	case "len":
		x := arg(0)
		if gs, ok := x.Meta.(ghostSeq); ok {
			return term(st.region("G!"+gs.name+"#len", "Int"), tInt)
		}
		switch {
		case x.K == KSlice:
			return x.Fs[2]
		case x.K == KTerm && x.Typ != nil && scalarSort(x.Typ) == "String":
			return term("(str.len "+x.T+")", tInt)
		}
		specFail("len of unsupported value")
	case "has":
		m, k := arg(0), arg(1)
		if ms, ok := m.Meta.(mapSnap); ok {
			return term(sel(ms.dom, k.T), tBool)
		}
		mt, ok := m.Typ.Underlying().(*types.Map)
		if !ok {
			specFail("has() on non-map")
		}
		return term(and(not(eq(m.T, "0")), st.mapHas(mt, m.T, k.T)), tBool)
	case "alloc":
		return term(sel(st.region("A", arr("Int", "Bool")), arg(0).T), tBool)
	case "fresh":
		r := arg(0).T
		a0 := ex.entryHeap["A"]
		if a0 == "" {
			a0 = st.withHeap(ex.entryHeap).region("A", arr("Int", "Bool"))
		}
		return term(and("(> "+r+" 0)", not(sel(a0, r)), sel(st.region("A", arr("Int", "Bool")), r)), tBool)
	case "wraps":
		return term(eq(sel(st.region("G!wraps", arr("Int", "Int")), arg(0).T), arg(1).T), tBool)
	case "contains":
		return term("(str.contains "+arg(0).T+" "+arg(1).T+")", tBool)
	case "prefixof":
		return term("(str.prefixof "+arg(0).T+" "+arg(1).T+")", tBool)
	case "suffixof":
		return term("(str.suffixof "+arg(0).T+" "+arg(1).T+")", tBool)
	case "substr":
		return term("(str.substr "+arg(0).T+" "+arg(1).T+" "+arg(2).T+")", tString)
	case "atoiok":
		ok, _ := atoiTerms(arg(0).T)
		return term(ok, tBool)
	case "atoival":
		_, v := atoiTerms(arg(0).T)
		return term(v, tInt)
	case "jsonmap":
		// the map[string]string whose JSON encoding *p (a *json.RawMessage) holds
		p := arg(0)
		rm := ex.w.namedType("encoding/json", "RawMessage")
		if rm == nil {
			specFail("jsonmap: encoding/json.RawMessage not in the program")
		}
		id := sel(st.region(boxRegion(rm, "#id"), arr("Int", "Int")), p.T)
		m := sel(st.region("G!jsonof", arr("Int", "Int")), id)
		return term(m, types.NewMap(tString, tString))
	case "inre":
		// inre(s, "pattern"): full match of s against a pattern of the supported fragment
		if len(args) != 2 || args[1].op != "lit-str" {
			specFail("inre needs a string literal pattern")
		}
		ri := newRegexInfo("spec", args[1].name, 0)
		if !ri.subsetOK {
			specFail("inre: pattern outside the fragment: %s", ri.subsetWhy)
		}
		var parts []string
		for _, it := range ri.items {
			parts = append(parts, it.smtRe())
		}
		return term("(str.in_re "+arg(0).T+" "+reCat(parts...)+")", tBool)
	case "isdigits":
		return term("(str.in_re "+arg(0).T+" (re.+ (re.range \"0\" \"9\")))", tBool)
	case "atoi":
		return term("(str.to_int "+arg(0).T+")", tInt)
	case "ite":
		c, a, b := arg(0), arg(1), arg(2)
		return ex.iteVal(c.T, a, b)
	case "dyn":
		// dynamic type id of an interface value
		return term(sel(st.region("G!dyn", arr("Int", "Int")), arg(0).T), tInt)
	case "typeid":
		if len(args) != 1 || args[0].op != "lit-str" {
			specFail("typeid needs a string literal")
		}
		id, ok := ex.w.typeIDByName(args[0].name)
		if !ok {
			specFail("typeid: unknown type %s", args[0].name)
		}
		return term(strconv.Itoa(id), tInt)
	case "upd":
		// upd(a, k, v): functional update of a ghost array
		a, k, v := arg(0), arg(1), arg(2)
		r := a
		r.T = store(a.T, k.T, ex.asTerm(v))
		return r
	case "kept", "kept_old":
		// kept("glob"): every region matching glob equals its value at the last loop cut (kept) / at entry (kept_old)
		if len(args) < 1 || args[0].op != "lit-str" {
			specFail("kept needs a region glob literal")
		}
		ref := st.preHeap
		if fn.name == "kept_old" {
			ref = ex.entryHeap
		}
		if ref == nil {
			specFail("kept() outside a loop")
		}
		var except []string
		for i := 1; i < len(args); i++ {
			except = append(except, arg(i).T)
		}
		var cs []string
		for _, r := range sortedKeys(ex.regSorts) {
			if !matchRegion(args[0].name, r) {
				continue
			}
			now := st.heap[r]
			was, ok := ref[r]
			if !ok {
				was = sanitize(r) + "!0"
				ex.declare(was, ex.regSorts[r])
			}
			if now == "" || now == was {
				continue
			}
			if len(except) == 0 {
				cs = append(cs, eq(now, was))
				continue
			}
			var ne []string
			for _, x := range except {
				ne = append(ne, not(eq("r!k", x)))
			}
			cs = append(cs, "(forall ((r!k Int)) (! (=> "+and(ne...)+" (= (select "+now+" r!k) (select "+was+" r!k))) :pattern ((select "+now+" r!k))))")
		}
		return term(and(cs...), tBool)
	case "kept_objs", "kept_objs_old":
		// kept_objs("glob", except...): objects allocated at the reference state keep their values in matching regions
		if len(args) < 1 || args[0].op != "lit-str" {
			specFail("kept_objs needs a region glob literal")
		}
		ref := st.preHeap
		if fn.name == "kept_objs_old" {
			ref = ex.entryHeap
		}
		if ref == nil {
			specFail("kept_objs() outside a loop")
		}
		a0, ok := ref["A"]
		if !ok {
			a0 = "A!0"
		}
		var except []string
		for i := 1; i < len(args); i++ {
			except = append(except, arg(i).T)
		}
		var cs []string
		for _, r := range sortedKeys(ex.regSorts) {
			if !matchRegion(args[0].name, r) || !strings.HasPrefix(ex.regSorts[r], "(Array Int ") {
				continue
			}
			now := st.heap[r]
			was, ok := ref[r]
			if !ok {
				was = sanitize(r) + "!0"
				ex.declare(was, ex.regSorts[r])
			}
			if now == "" || now == was {
				continue
			}
			conds := []string{"(select " + a0 + " r!k)"}
			for _, x := range except {
				conds = append(conds, not(eq("r!k", x)))
			}
			cs = append(cs, "(forall ((r!k Int)) (! (=> "+and(conds...)+" (= (select "+now+" r!k) (select "+was+" r!k))) :pattern ((select "+now+" r!k))))")
		}
		return term(and(cs...), tBool)
	case "outprefix_kept":
		// every ghost out[] entry below old(len(out)) is unchanged
		ol := ex.entryHeap["G!out#len"]
		if ol == "" {
			ol = "G!out$len!0"
		}
		var cs []string
		for _, r := range sortedKeys(ex.regSorts) {
			if !strings.HasPrefix(r, "G!out!") {
				continue
			}
			now := st.heap[r]
			was, ok := ex.entryHeap[r]
			if !ok {
				was = sanitize(r) + "!0"
			}
			if now == "" || now == was {
				continue
			}
			cs = append(cs, "(forall ((i!k Int)) (! (=> (and (<= 0 i!k) (< i!k "+ol+")) (= (select "+now+" i!k) (select "+was+" i!k))) :pattern ((select "+now+" i!k))))")
		}
		return term(and(cs...), tBool)
	case "unbox":
		// unbox(x, "leafpath"): leaf of a struct/slice value boxed into an interface
		if len(args) != 3 || args[1].op != "lit-str" || args[2].op != "lit-str" {
			specFail("unbox(x, \"sort\", \"path\")")
		}
		return Val{K: KTerm, T: sel(st.region("I!"+args[2].name, arr("Int", args[1].name)), arg(0).T), Typ: sortType(args[1].name)}
	case "atlock":
		// atlock(m): the contents of guarded map m at the most recent acquisition of its lock
		m := arg(0)
		mt, ok := m.Typ.Underlying().(*types.Map)
		if !ok {
			specFail("atlock() on non-map")
		}
		_, ds := mapRegions(mt)
		lfs := leaves(mt.Elem())
		if len(lfs) != 1 {
			specFail("atlock() on a map with composite values")
		}
		_, vs := mapValRegion(mt, lfs[0])
		r := Val{K: KTerm, T: m.T, Typ: nil}
		r.Meta = mapSnap{dom: sel(st.region("G!snap!"+typeName(mt)+"!dom", ds), m.T), val: sel(st.region("G!snap!"+typeName(mt)+"!val", vs), m.T), elem: mt.Elem()}
		return r
	case "cast":
		// cast(x, "*pkg.T"): view an interface value holding a pointer as that pointer
		if len(args) != 2 || args[1].op != "lit-str" {
			specFail("cast needs a type name literal")
		}
		t := ex.w.typeByName(args[1].name)
		if t == nil {
			specFail("cast: unknown type %s", args[1].name)
		}
		return term(arg(0).T, t)
	case "unbox_string":
		return term(sel(st.region("I!String", arr("Int", "String")), arg(0).T), tString)
	case "unbox_int":
		return term(sel(st.region("I!Int", arr("Int", "Int")), arg(0).T), tInt)
	case "unbox_slice_id":
		return term(sel(st.region("I!#id", arr("Int", "Int")), arg(0).T), tInt)
	case "mapof":
		// snapshot accessor for ghost map snapshots: mapof(out[i].Subjects)
		return arg(0)
	case "recvd":
		ch, i := arg(0), arg(1)
		et := chanElem(ch.Typ)
		if et == nil || scalarSort(et) == "" {
			specFail("recvd(): channel of scalar elements expected")
		}
		s := scalarSort(et)
		return term(sel(sel(st.region("G!recvd!"+s, arr("Int", arr("Int", s))), ch.T), i.T), et)
	case "chancap":
		return term(sel(st.region("G!chancap", arr("Int", "Int")), arg(0).T), tInt)
	case "tokens":
		// tokens(ch): messages queued in ch plus goroutines spawned that will still send one (token-tracked channels)
		return term(sel(st.region("G!tokens", arr("Int", "Int")), arg(0).T), tInt)
	case "pathjoin":
		ex.declareFunRaw("pathjoin", "(String String) String")
		return term("(pathjoin "+arg(0).T+" "+arg(1).T+")", tString)
	case "pending":
		return term("(- "+sel(st.region("G!sentlen", arr("Int", "Int")), arg(0).T)+" "+sel(st.region("G!recvlen", arr("Int", "Int")), arg(0).T)+")", tInt)
	case "tickperiod":
		return term(sel(st.region("G!tickperiod", arr("Int", "Int")), arg(0).T), tInt)
	case "pushmsg":
		return Val{K: KTerm, T: sel(st.region("G!push!msg", arr("Int", "Int")), arg(0).T)}
	case "pushsrc":
		return term(sel(st.region("G!push!src", arr("Int", "Int")), arg(0).T), tInt)
	case "pushedfor":
		return term(sel(st.region("G!pushedat", arr("Int", "Int")), arg(0).T), tInt)
	case "msgline":
		return term(sel(st.region("G!msgline", arr("Int", "String")), arg(0).T), tString)
	case "hasbits":
		// hasbits(x, mask): (x & mask) == mask on 32-bit values
		x, m := arg(0).T, arg(1).T
		return term("(= (bvand ((_ int2bv 32) "+x+") ((_ int2bv 32) "+m+")) ((_ int2bv 32) "+m+"))", tBool)
	case "filemode":
		return term(sel(st.region("G!filemode", arr("Int", "Int")), arg(0).T), tInt)
	case "writtenat":
		return term(sel(st.region("G!writtenat", arr("Int", "Int")), arg(0).T), tInt)
	case "rdgood":
		return term(sel(st.region("G!rdgood", arr("Int", "Int")), arg(0).T), tInt)
	case "dirname":
		return term(sel(st.region("G!dirent_name", arr("Int", "String")), arg(0).T), tString)
	case "isdir":
		return term(sel(st.region("G!dirent_isdir", arr("Int", "Bool")), arg(0).T), tBool)
	case "rdrec":
		return term(sel(st.region("G!rdrec", arr("Int", "Int")), arg(0).T), tInt)
	case "rdstream":
		return term(sel(sel(st.region("G!rdstream", arr("Int", arr("Int", "String"))), arg(0).T), arg(1).T), tString)
	case "rdlasterr":
		return term(sel(st.region("G!rdlasterr", arr("Int", "Int")), arg(0).T), types.Universe.Lookup("error").Type())
	case "sentlen":
		return term(sel(st.region("G!sentlen", arr("Int", "Int")), arg(0).T), tInt)
	case "recvlen":
		return term(sel(st.region("G!recvlen", arr("Int", "Int")), arg(0).T), tInt)
	case "sent":
		ch, i := arg(0), arg(1)
		return Val{K: KUnit, Meta: ghostElem{seq: "sent", idx: i.T, ch: ch.T, et: chanElem(ch.Typ)}, Typ: ch.Typ}
	case "closed":
		return term(sel(st.region("G!closed", arr("Int", "Bool")), arg(0).T), tBool)
	case "cancelled":
		return term(sel(st.region("G!cancelled", arr("Int", "Bool")), arg(0).T), tBool)
	case "holds":
		// holds(obj, "mutexField"): the calling goroutine holds obj.mutexField
		obj := arg(0)
		if len(args) != 2 || args[1].op != "lit-str" || obj.Typ == nil {
			specFail("holds(obj, \"field\")")
		}
		return term(st.heldGoal(lockTag(derefType(obj.Typ), args[1].name), obj.T), tBool)
	case "group":
		// group(re, s, "Name"): the named capture group of re's leftmost-first match on s
		re, sv := arg(0), arg(1)
		ri := regexOf(re)
		if ri == nil {
			specFail("group(): first argument is not a package-level regexp")
		}
		if len(args) != 3 || args[2].op != "lit-str" {
			specFail("group(): third argument must be a string literal")
		}
		idx := -1
		for i, n := range ri.names {
			if i > 0 && n == args[2].name {
				idx = i
			}
		}
		if args[2].name == "0" {
			idx = 0
		}
		if idx < 0 {
			specFail("group(): pattern %s has no group %s", ri.name, args[2].name)
		}
		return term("("+ri.grpFn(ex)+" "+sv.T+" "+strconv.Itoa(idx)+")", tString)
	case "matches":
		ri := regexOf(arg(0))
		if ri == nil {
			specFail("matches(): first argument is not a package-level regexp")
		}
		return term("("+ri.matchFn(ex)+" "+arg(1).T+")", tBool)
	case "ctr":
		return term(sel(sel(st.region("G!ctr", arr("String", arr("String", "Int"))), arg(0).T), arg(1).T), tInt)
	case "ctrsum":
		return term(st.region("G!ctrsum", "Int"), tInt)
	case "clock":
		return term(st.region("G!clock", "Int"), tInt)
	}
	// user predicate / spec function
	if p, ok := ex.w.preds[fn.name]; ok {
		if len(args) != len(p.params) {
			specFail("predicate %s: wrong number of arguments", fn.name)
		}
		ne := &env{vars: map[string]Val{}}
		for i, pn := range p.params {
			ne.vars[pn] = ex.eval(st, args[i], e)
		}
		return ex.eval(st, p.body, ne)
	}
	if uf, ok := ex.w.ufuncs[fn.name]; ok {
		var ts []string
		for i := range args {
			ts = append(ts, arg(i).T)
		}
		ex.declareFun(fn.name, uf)
		v := Val{K: KTerm, T: "(" + fn.name + " " + strings.Join(ts, " ") + ")"}
		switch uf.ret {
		case "Int":
			v.Typ = tInt
		case "Bool":
			v.Typ = tBool
		case "String":
			v.Typ = tString
		}
		return v
	}
	specFail("unknown spec function %s", fn.name)
	return Val{}
}

func chanElemKey(t types.Type) string {
	if t == nil {
		return "?"
	}
	if c, ok := t.Underlying().(*types.Chan); ok {
		return typeName(c.Elem())
	}
	return "?"
}

// withHeap returns a view of st whose heap is h (a snapshot); new path facts are adopted back.
func (st *State) withHeap(h map[string]string) *State {
	n := *st
	n.heap = make(map[string]string, len(h))
	for k, v := range h {
		n.heap[k] = v
	}
	n.written = nil
	n.writtenCells = nil
	return &n
}

func (st *State) adopt(s2 *State) {
	if len(s2.pc) > len(st.pc) {
		st.pc = s2.pc
	}
}
