package main

// Assumed contracts of standard-library and third-party functions.
// Every entry registered here is reported in the evidence under trusted_base / assumptions.

import (
	"fmt"
	"go/types"
	"math/big"
	"strconv"
	"strings"

	"golang.org/x/tools/go/ssa"
)

func (w *World) ext(name, doc string, h externHandler) {
	w.externs[name] = h
	w.externDoc[name] = doc
}

func (w *World) iext(name, doc string, h externHandler) {
	w.ifaceExterns[name] = h
	w.externDoc["iface:"+name] = doc
}

func freshResults(st *State, c *callCtx, sig *types.Signature, prefix string) Val {
	rt := sig.Results()
	switch rt.Len() {
	case 0:
		return Val{K: KUnit}
	case 1:
		return freshOf(st, prefix, rt.At(0).Type())
	}
	fs := make([]Val, rt.Len())
	for i := range fs {
		fs[i] = freshOf(st, prefix+"."+strconv.Itoa(i), rt.At(i).Type())
	}
	return Val{K: KTuple, Fs: fs, Typ: rt}
}

func freshOf(st *State, prefix string, t types.Type) Val {
	if _, ok := t.Underlying().(*types.Array); ok {
		return Val{K: KTerm, T: "0", Typ: t}
	}
	return st.freshVal(prefix, t)
}

// externPure: no heap effect, unconstrained results (logging).
func externPure(ex *Exec, st *State, c *callCtx) {
	var sig *types.Signature
	if c.fn != nil {
		sig = c.fn.Signature
	} else {
		sig = c.method.Type().(*types.Signature)
	}
	res := freshResults(st, c, sig, "pure")
	// non-nil results for builder-style logging APIs
	if res.K == KTerm && res.Typ != nil {
		if _, ok := res.Typ.Underlying().(*types.Pointer); ok {
			st.assume("(> " + res.T + " 0)")
		}
	}
	c.k(st, res)
}

func newErr(ex *Exec, st *State, prefix string) string {
	r := st.allocRef(prefix)
	return r
}

// varargsOf returns the executor-level elements of a variadic argument.
func varargsOf(v Val) []Val {
	if v.K == KArray {
		return v.Fs
	}
	return nil
}

var reDigits = `(re.+ (re.range "0" "9"))`
var reAtoi = `(re.++ (re.opt (re.union (str.to_re "+") (str.to_re "-"))) ` + reDigits + `)`

func registerExterns(w *World) {
	// ---- strings
	w.ext("strings.HasPrefix", "HasPrefix(s,p) == str.prefixof(p,s)", func(ex *Exec, st *State, c *callCtx) {
		c.k(st, term("(str.prefixof "+c.args[1].T+" "+c.args[0].T+")", tBool))
	})
	w.ext("strings.HasSuffix", "HasSuffix(s,p) == str.suffixof(p,s)", func(ex *Exec, st *State, c *callCtx) {
		c.k(st, term("(str.suffixof "+c.args[1].T+" "+c.args[0].T+")", tBool))
	})
	w.ext("strings.Contains", "Contains(s,t) == str.contains(s,t)", func(ex *Exec, st *State, c *callCtx) {
		c.k(st, term("(str.contains "+c.args[0].T+" "+c.args[1].T+")", tBool))
	})
	w.ext("strings.TrimSuffix", "TrimSuffix(s,t): if s == r ++ t then r else s (case split; the decomposition is recorded for position lemmas)", func(ex *Exec, st *State, c *callCtx) {
		s, t := c.args[0].T, c.args[1].T
		if !isStrLit(t) {
			c.k(st, term(ite("(str.suffixof "+t+" "+s+")", "(str.substr "+s+" 0 (- (str.len "+s+") (str.len "+t+")))", s), tString))
			return
		}
		no := st.clone()
		ex.paths++
		r := ex.fresh("trimsuffix", "String")
		st.assume(eq(s, "(str.++ "+r+" "+t+")"))
		st.assume("(str.suffixof " + t + " " + s + ")")
		st.addFact(strFact{kind: "decomp", a: s, parts: []string{r, t}})
		no.assume(not("(str.suffixof " + t + " " + s + ")"))
		no.addFact(strFact{kind: "notsuffix", a: s, lit: smtStringValue(t)})
		c.k(st, term(r, tString))
		c.k(no, term(s, tString))
	})
	w.ext("strings.TrimPrefix", "TrimPrefix(s,p) == (prefixof(p,s) ? s[len(p):] : s)", func(ex *Exec, st *State, c *callCtx) {
		s, p := c.args[0].T, c.args[1].T
		c.k(st, term(ite("(str.prefixof "+p+" "+s+")", "(str.substr "+s+" (str.len "+p+") (- (str.len "+s+") (str.len "+p+")))", s), tString))
	})
	w.ext("strings.TrimSpace", "TrimSpace(s): s == l ++ r ++ t, l and t white space, r neither starts nor ends with ASCII white space", func(ex *Exec, st *State, c *callCtx) {
		s := c.args[0].T
		r := ex.fresh("trimmed", "String")
		l := ex.fresh("lead", "String")
		t := ex.fresh("trail", "String")
		ws := `(re.* (re.union (str.to_re " ") (str.to_re "\u{9}") (str.to_re "\u{a}") (str.to_re "\u{b}") (str.to_re "\u{c}") (str.to_re "\u{d}")))`
		notws := `(re.inter re.allchar (re.comp (re.union (str.to_re " ") (str.to_re "\u{9}") (str.to_re "\u{a}") (str.to_re "\u{b}") (str.to_re "\u{c}") (str.to_re "\u{d}"))))`
		st.assume(eq(s, "(str.++ "+l+" "+r+" "+t+")"))
		st.assume("(str.in_re " + l + " " + ws + ")")
		st.assume("(str.in_re " + t + " " + ws + ")")
		st.assume("(str.in_re " + r + " (re.union (str.to_re \"\") " + notws + " (re.++ " + notws + " re.all " + notws + ")))")
		c.k(st, term(r, tString))
	})
	w.ext("strings.TrimLeft", "TrimLeft(s, \" \"): s == sp ++ r, sp in ' '*, r does not start with ' ' (only single-character cutsets)", func(ex *Exec, st *State, c *callCtx) {
		s, cut := c.args[0].T, c.args[1].T
		if !(strings.HasPrefix(cut, `"`) && len(cut) == 3) {
			panic(subsetErr{"strings.TrimLeft with a cutset other than one literal character"})
		}
		r := ex.fresh("trimleft", "String")
		sp := ex.fresh("lead", "String")
		st.assume(eq(s, "(str.++ "+sp+" "+r+")"))
		st.assume("(str.in_re " + sp + " (re.* (str.to_re " + cut + ")))")
		st.assume(not("(str.prefixof " + cut + " " + r + ")"))
		cr := []rune(smtStringValue(cut))[0]
		st.addFact(strFact{kind: "decomp", a: s, parts: []string{sp, r}})
		st.addFact(strFact{kind: "items", a: sp, items: []rxItem{{class: []rune{cr, cr}, min: 0, max: -1}}})
		st.addFact(strFact{kind: "notprefix", a: r, lit: smtStringValue(cut)})
		c.k(st, term(r, tString))
	})
	w.ext("strings.Split", "Split(s, sep) for a literal one-character sep: parts p_0..p_{n-1}, none containing sep, s == p_0 sep p_1 ... ; modelled through first part + remainder (case split on whether sep occurs): len >= 1, parts[0] = text before the first sep, Join(parts[1:], sep) = text after it", func(ex *Exec, st *State, c *callCtx) {
		s, sep := c.args[0].T, c.args[1].T
		if !(strings.HasPrefix(sep, `"`) && len(sep) == 3) {
			panic(subsetErr{"strings.Split with a separator other than one literal character"})
		}
		mk := func(st *State, has bool) {
			id := st.allocRef("split")
			n := ex.fresh("nparts", "Int")
			first := ex.fresh("part0", "String")
			rest := ex.fresh("rest", "String")
			st.assume(not("(str.contains " + first + " " + sep + ")"))
			if has {
				st.assume("(str.contains " + s + " " + sep + ")")
				st.assume(eq(s, "(str.++ "+first+" "+sep+" "+rest+")"))
				st.assume("(>= " + n + " 2)")
				st.addFact(strFact{kind: "decomp", a: s, parts: []string{first, sep, rest}})
				st.addFact(strFact{kind: "notcontains", a: first, lit: smtStringValue(sep)})
			} else {
				st.assume(not("(str.contains " + s + " " + sep + ")"))
				st.assume(eq(s, first))
				st.assume(eq(n, "1"))
				st.assume(eq(rest, `""`))
			}
			reg, sort := sliceRegion(tString)
			a := st.region(reg, sort)
			cont := ex.fresh("splitparts", arr("Int", "String"))
			st.assume(eq(sel(cont, "0"), first))
			st.setRegion(reg, sort, store(a, id, cont))
			st.setKnown(reg, id, "0", first)
			g := st.region("G!splitrest", arr("Int", "String"))
			st.setRegion("G!splitrest", arr("Int", "String"), store(g, id, rest))
			gs := st.region("G!splitsep", arr("Int", "String"))
			st.setRegion("G!splitsep", arr("Int", "String"), store(gs, id, sep))
			st.setKnown("G!splitrest", id, "", rest)
			c.k(st, Val{K: KSlice, Typ: types.NewSlice(tString), Fs: []Val{term(id, tInt), term("0", tInt), term(n, tInt)}})
		}
		no := st.clone()
		ex.paths++
		mk(st, true)
		mk(no, false)
	})
	w.ext("strings.Cut", "Cut(s, sep) for a literal sep: (before, after, true) with s == before ++ sep ++ after and sep not in before, or (s, \"\", false) when sep does not occur (case split; decomposition recorded for position lemmas)", func(ex *Exec, st *State, c *callCtx) {
		s, sep := c.args[0].T, c.args[1].T
		if !isStrLit(sep) || sep == `""` {
			panic(subsetErr{"strings.Cut with a non-literal or empty separator"})
		}
		rt := c.fn.Signature.Results()
		no := st.clone()
		ex.paths++
		before := ex.fresh("cutbefore", "String")
		after := ex.fresh("cutafter", "String")
		st.assume("(str.contains " + s + " " + sep + ")")
		st.assume(not("(str.contains " + before + " " + sep + ")"))
		st.assume(eq(s, "(str.++ "+before+" "+sep+" "+after+")"))
		st.addFact(strFact{kind: "decomp", a: s, parts: []string{before, sep, after}})
		st.addFact(strFact{kind: "notcontains", a: before, lit: smtStringValue(sep)})
		no.assume(not("(str.contains " + s + " " + sep + ")"))
		c.k(st, Val{K: KTuple, Fs: []Val{term(before, rt.At(0).Type()), term(after, rt.At(1).Type()), term("true", tBool)}})
		c.k(no, Val{K: KTuple, Fs: []Val{term(s, rt.At(0).Type()), term(`""`, rt.At(1).Type()), term("false", tBool)}})
	})
	w.ext("strings.Join", "Join(Split(s,sep)[1:], sep) == the text after the first sep (only this composition is modelled)", func(ex *Exec, st *State, c *callCtx) {
		sl, sep := c.args[0], c.args[1].T
		if sl.K != KSlice || sl.Fs[1].T != "(+ 0 1)" && sl.Fs[1].T != "1" {
			panic(subsetErr{"strings.Join on anything but Split(...)[1:]"})
		}
		id := sl.Fs[0].T
		gs := st.region("G!splitsep", arr("Int", "String"))
		ex.record(st, ex.rootName+"/pre:strings.Join@"+c.site, "requires", eq(sel(gs, id), sep), "Join separator equals Split separator")
		if t, ok := st.known["G!splitrest|"+id+"|"]; ok {
			c.k(st, term(t, tString))
			return
		}
		c.k(st, term(sel(st.region("G!splitrest", arr("Int", "String")), id), tString))
	})
	w.ext("strconv.Atoi", "Atoi(s): err == nil <=> s in [+-]?[0-9]+ and the value fits int64; then result == (+/-) str.to_int(digits)", func(ex *Exec, st *State, c *callCtx) {
		s := c.args[0].T
		v := ex.fresh("atoi", "Int")
		e := ex.fresh("atoierr", "Int")
		ok, val := atoiTerms(s)
		st.assume(eq(eq(e, "0"), ok))
		// a fact of str.to_int the solvers do not find quickly by themselves: at most 18 digits stay below 10^18 (< 2^63)
		st.assume(atoiDigitsLemma(s))
		st.assume("(>= " + e + " 0)")
		st.assume(implies(ok, eq(v, val)))
		st.assume("(<= (- 9223372036854775808) " + v + ")")
		st.assume("(<= " + v + " 9223372036854775807)")
		st.assume(implies(not(eq(e, "0")), sel(st.region("A", arr("Int", "Bool")), e)))
		c.k(st, Val{K: KTuple, Fs: []Val{term(v, tInt), term(e, types.Universe.Lookup("error").Type())}})
	})
	w.ext("strconv.Itoa", "Itoa: opaque string", externPure)
	w.ext("strings.Index", "strings.Index(s, sub) == str.indexof(s, sub, 0)", func(ex *Exec, st *State, c *callCtx) {
		c.k(st, term("(str.indexof "+c.args[0].T+" "+c.args[1].T+" 0)", tInt))
	})
	parseInt := func(unsigned bool) externHandler {
		return func(ex *Exec, st *State, c *callCtx) {
			s := c.args[0].T
			base, ok1 := isIntLit(c.args[1].T)
			bits, ok2 := isIntLit(c.args[2].T)
			if !ok1 || !ok2 || base != 10 || bits < 0 || bits > 64 {
				panic(subsetErr{"strconv.ParseInt/ParseUint with a non-constant or non-decimal base/bit size"})
			}
			if bits == 0 {
				bits = 64
			}
			v := ex.fresh("parseint", "Int")
			e := ex.fresh("parseinterr", "Int")
			var okT, val, lo, hi string
			if unsigned {
				val = "(str.to_int " + s + ")"
				lo, hi = "0", pow2(int(bits))+" 1"
				hi = "(- " + hi + ")"
				okT = and("(str.in_re "+s+" (re.+ (re.range \"0\" \"9\")))", "(<= "+val+" "+hi+")")
			} else {
				_, val = atoiTerms(s)
				lo, hi = "(- "+pow2(int(bits)-1)+")", "(- "+pow2(int(bits)-1)+" 1)"
				okT = and("(str.in_re "+s+" "+reAtoi+")", "(<= "+lo+" "+val+")", "(<= "+val+" "+hi+")")
			}
			st.assume(eq(eq(e, "0"), okT))
			st.assume("(>= " + e + " 0)")
			st.assume(implies(okT, eq(v, val)))
			st.assume("(<= " + lo + " " + v + ")")
			st.assume("(<= " + v + " " + hi + ")")
			st.assume(implies(not(eq(e, "0")), sel(st.region("A", arr("Int", "Bool")), e)))
			rt := c.fn.Signature.Results()
			c.k(st, Val{K: KTuple, Fs: []Val{term(v, rt.At(0).Type()), term(e, rt.At(1).Type())}})
		}
	}
	w.ext("strconv.ParseInt", "ParseInt(s, 10, bits): err == nil <=> s in [+-]?[0-9]+ and the value fits the bit size; then result == the value (constant base 10 only)", parseInt(false))
	w.ext("strconv.ParseUint", "ParseUint(s, 10, bits): err == nil <=> s in [0-9]+ and the value fits the bit size; then result == str.to_int(s) (constant base 10 only)", parseInt(true))
	formatInt := func(ex *Exec, st *State, c *callCtx) {
		if base, ok := isIntLit(c.args[1].T); !ok || base != 10 {
			panic(subsetErr{"strconv.FormatInt/FormatUint with a non-decimal base"})
		}
		v := c.args[0].T
		c.k(st, term(ite("(< "+v+" 0)", "(str.++ \"-\" (str.from_int (- "+v+")))", "(str.from_int "+v+")"), tString))
	}
	w.ext("strconv.FormatInt", "FormatInt(v, 10): canonical decimal text of v", formatInt)
	w.ext("strconv.FormatUint", "FormatUint(v, 10): canonical decimal text of v", formatInt)

	// ---- fmt / errors
	w.ext("fmt.Sprintf", "Sprintf: opaque string", func(ex *Exec, st *State, c *callCtx) {
		c.k(st, term(ex.fresh("sprintf", "String"), tString))
	})
	w.ext("fmt.Errorf", "Errorf: fresh non-nil error; wraps(e) = the argument formatted with %w (the single error-typed argument)", func(ex *Exec, st *State, c *callCtx) {
		e := newErr(ex, st, "errorf")
		for _, a := range varargsOf(c.args[1]) {
			if inner, ok := a.Meta.(Val); ok {
				_ = inner
			}
			if a.K == KTerm && a.Typ != nil && types.TypeString(a.Typ, nil) == "error" {
				g := st.region("G!wraps", arr("Int", "Int"))
				st.setRegion("G!wraps", arr("Int", "Int"), store(g, e, a.T))
			} else if a.K == KTerm && isErrorIface(a) {
				g := st.region("G!wraps", arr("Int", "Int"))
				st.setRegion("G!wraps", arr("Int", "Int"), store(g, e, a.T))
			}
		}
		c.k(st, term(e, types.Universe.Lookup("error").Type()))
	})
	w.ext("errors.New", "errors.New: fresh non-nil error", func(ex *Exec, st *State, c *callCtx) {
		c.k(st, term(newErr(ex, st, "errnew"), types.Universe.Lookup("error").Type()))
	})
	w.ext("errors.Is", "errors.Is(err, target): err == target || (unwrap chain) — modelled as err == target || wraps(err) == target || unknown deeper chain (fresh bool implied by err != nil)", func(ex *Exec, st *State, c *callCtx) {
		e, t := c.args[0].T, c.args[1].T
		deeper := ex.fresh("isdeeper", "Bool")
		w0 := sel(st.region("G!wraps", arr("Int", "Int")), e)
		c.k(st, term(and(not(eq(e, "0")), or(eq(e, t), eq(w0, t), deeper)), tBool))
	})
	w.iext("error.Error", "Error(): opaque string", func(ex *Exec, st *State, c *callCtx) {
		ex.nilCheckTerm(st, c.args[0].T, c.site)
		c.k(st, term(ex.fresh("errstr", "String"), tString))
	})

	// ---- time
	w.ext("time.Now", "time.Now: fresh instant, monotone (>= every earlier Now)", func(ex *Exec, st *State, c *callCtx) {
		t := ex.fresh("now", "Int")
		clk := st.region("G!clock", "Int")
		st.assume("(>= " + t + " " + clk + ")")
		st.setRegion("G!clock", "Int", t)
		c.k(st, term(t, c.fn.Signature.Results().At(0).Type()))
	})
	w.ext("(time.Time).UTC", "UTC: same instant", func(ex *Exec, st *State, c *callCtx) { c.k(st, c.args[0]) })
	w.ext("(time.Time).Before", "Before(u) == instant < u's instant", func(ex *Exec, st *State, c *callCtx) {
		c.k(st, term("(< "+c.args[0].T+" "+c.args[1].T+")", tBool))
	})
	w.ext("(time.Time).After", "After(u) == instant > u's instant", func(ex *Exec, st *State, c *callCtx) {
		c.k(st, term("(> "+c.args[0].T+" "+c.args[1].T+")", tBool))
	})
	w.ext("(time.Time).Add", "Add(d) == instant + d", func(ex *Exec, st *State, c *callCtx) {
		c.k(st, term("(+ "+c.args[0].T+" "+c.args[1].T+")", c.args[0].Typ))
	})
	w.ext("(time.Time).String", "opaque", externPure)
	w.ext("time.NewTicker", "NewTicker(d): fresh ticker, ghost period(t) = d", func(ex *Exec, st *State, c *callCtx) {
		r := st.allocRef("ticker")
		g := st.region("G!tickperiod", arr("Int", "Int"))
		st.setRegion("G!tickperiod", arr("Int", "Int"), store(g, r, c.args[0].T))
		// the channel field C
		ch := st.allocRef("tickchan")
		tt := c.fn.Signature.Results().At(0).Type()
		et := tt.Underlying().(*types.Pointer).Elem()
		st.writeLeaf(et, "C", "Int", r, ch)
		gc := st.region("G!tickerof", arr("Int", "Int"))
		st.setRegion("G!tickerof", arr("Int", "Int"), store(gc, ch, r))
		c.k(st, term(r, tt))
	})
	w.ext("time.NewTimer", "NewTimer(d): fresh one-shot timer: fires once after d, ghost period(t) = 0 (it does not repeat)", func(ex *Exec, st *State, c *callCtx) {
		r := st.allocRef("timer")
		g := st.region("G!tickperiod", arr("Int", "Int"))
		st.setRegion("G!tickperiod", arr("Int", "Int"), store(g, r, "0"))
		ch := st.allocRef("tickchan")
		tt := c.fn.Signature.Results().At(0).Type()
		et := tt.Underlying().(*types.Pointer).Elem()
		st.writeLeaf(et, "C", "Int", r, ch)
		gc := st.region("G!tickerof", arr("Int", "Int"))
		st.setRegion("G!tickerof", arr("Int", "Int"), store(gc, ch, r))
		c.k(st, term(r, tt))
	})
	w.ext("(*time.Timer).Stop", "Timer.Stop: no modelled effect", func(ex *Exec, st *State, c *callCtx) { c.k(st, term(ex.fresh("stopped", "Bool"), tBool)) })
	w.ext("(*time.Ticker).Stop", "Stop: no modelled effect", func(ex *Exec, st *State, c *callCtx) { c.k(st, Val{K: KUnit}) })

	// ---- uuid / json
	w.ext("github.com/google/uuid.New", "uuid.New: opaque", func(ex *Exec, st *State, c *callCtx) { c.k(st, Val{K: KTerm, T: "0"}) })
	w.ext("(github.com/google/uuid.UUID).String", "UUID.String: opaque string", func(ex *Exec, st *State, c *callCtx) {
		c.k(st, term(ex.fresh("uuid", "String"), tString))
	})
	w.ext("encoding/json.Marshal", "json.Marshal(map[string]string): never fails; result bytes b with ghost jsonof(b) = the marshalled map object (content at call time is what the consumers read: the map is not modified afterwards)", func(ex *Exec, st *State, c *callCtx) {
		id := st.allocRef("json")
		n := ex.fresh("jsonlen", "Int")
		st.assume("(>= " + n + " 0)")
		src := "0"
		if inner, ok := c.args[0].Meta.(Val); ok && inner.K == KTerm {
			src = inner.T
			if inner.Typ == nil || !isMapStringString(inner.Typ) {
				src = "0"
			}
		}
		e := "0"
		if src == "0" {
			e = ex.fresh("jsonerr", "Int")
			st.assume("(>= " + e + " 0)")
		}
		g := st.region("G!jsonof", arr("Int", "Int"))
		st.setRegion("G!jsonof", arr("Int", "Int"), store(g, id, src))
		bt := c.fn.Signature.Results().At(0).Type()
		c.k(st, Val{K: KTuple, Fs: []Val{{K: KSlice, Typ: bt, Fs: []Val{term(id, tInt), term("0", tInt), term(n, tInt)}}, term(e, types.Universe.Lookup("error").Type())}})
	})
	w.ext("encoding/json.NewEncoder", "json.NewEncoder(w): fresh encoder, ghost encwriter(e) = w", func(ex *Exec, st *State, c *callCtx) {
		r := st.allocRef("encoder")
		g := st.region("G!encwriter", arr("Int", "Int"))
		st.setRegion("G!encwriter", arr("Int", "Int"), store(g, r, c.args[0].T))
		c.k(st, term(r, c.fn.Signature.Results().At(0).Type()))
	})
	w.ext("(*encoding/json.Encoder).Encode", "Encoder.Encode(v): ghost g_encoded = v (identity of the encoded value), may fail", func(ex *Exec, st *State, c *callCtx) {
		v := "0"
		if inner, ok := c.args[1].Meta.(Val); ok && inner.K == KTerm {
			v = inner.T
		}
		st.setRegion("G!g_encoded", "Int", v)
		e := ex.fresh("encerr", "Int")
		st.assume("(>= " + e + " 0)")
		c.k(st, term(e, types.Universe.Lookup("error").Type()))
	})

	// ---- auditevent writer (ghost trace `out`)
	w.ext("(*github.com/metal-toolbox/auditevent.EventWriter).Write", "EventWriter.Write(e): either fails (non-nil error, out unchanged) or appends a snapshot of *e to the ghost trace `out` and returns nil; which one is an unconstrained oracle per call", externEventWrite)

	// ---- prometheus
	w.ext("(*github.com/prometheus/client_golang/prometheus.CounterVec).WithLabelValues", "CounterVec.WithLabelValues(l1,l2): the counter for that label pair", func(ex *Exec, st *State, c *callCtx) {
		r := st.allocRef("counter")
		v := term(r, c.fn.Signature.Results().At(0).Type())
		ls := varargsOf(c.args[1])
		if len(ls) != 2 {
			panic(subsetErr{"WithLabelValues with other than two labels"})
		}
		g1 := st.region("G!ctrl1", arr("Int", "String"))
		st.setRegion("G!ctrl1", arr("Int", "String"), store(g1, r, ls[0].T))
		g2 := st.region("G!ctrl2", arr("Int", "String"))
		st.setRegion("G!ctrl2", arr("Int", "String"), store(g2, r, ls[1].T))
		c.k(st, v)
	})
	w.ext("(*github.com/prometheus/client_golang/prometheus.CounterVec).With", "CounterVec.With(labels): the counter for labels[\"method\"], labels[\"outcome\"] (the two label names remote_logins_total is declared with — assumed); panics unless exactly those names are present", func(ex *Exec, st *State, c *callCtx) {
		r := st.allocRef("counter")
		v := term(r, c.fn.Signature.Results().At(0).Type())
		m := c.args[1]
		mt, ok := m.Typ.Underlying().(*types.Map)
		if !ok {
			panic(subsetErr{"CounterVec.With on a non-map value"})
		}
		ex.record(st, ex.rootName+"/panic:With-labels@"+c.site, "safety", and(not(eq(m.T, "0")), st.mapHas(mt, m.T, `"method"`), st.mapHas(mt, m.T, `"outcome"`)), "CounterVec.With panics when a declared label is missing")
		l1 := st.mapGet(mt, m.T, `"method"`)
		l2 := st.mapGet(mt, m.T, `"outcome"`)
		g1 := st.region("G!ctrl1", arr("Int", "String"))
		st.setRegion("G!ctrl1", arr("Int", "String"), store(g1, r, l1.T))
		g2 := st.region("G!ctrl2", arr("Int", "String"))
		st.setRegion("G!ctrl2", arr("Int", "String"), store(g2, r, l2.T))
		c.k(st, v)
	})
	w.iext("github.com/prometheus/client_golang/prometheus.Counter.Inc", "Counter.Inc(): ctr[l1][l2] += 1, ctrsum += 1", func(ex *Exec, st *State, c *callCtx) {
		r := c.args[0].T
		l1 := sel(st.region("G!ctrl1", arr("Int", "String")), r)
		l2 := sel(st.region("G!ctrl2", arr("Int", "String")), r)
		cs := arr("String", arr("String", "Int"))
		a := st.region("G!ctr", cs)
		st.setRegion("G!ctr", cs, store(a, l1, store(sel(a, l1), l2, "(+ "+sel(sel(a, l1), l2)+" 1)")))
		st.setRegion("G!ctrsum", "Int", "(+ "+st.region("G!ctrsum", "Int")+" 1)")
		c.k(st, Val{K: KUnit})
	})

	// ---- context
	w.iext("context.Context.Done", "ctx.Done(): the cancellation channel of ctx", func(ex *Exec, st *State, c *callCtx) {
		ctx := c.args[0].T
		ch := sel(st.region("G!donechan", arr("Int", "Int")), ctx)
		v := term(ch, c.method.Type().(*types.Signature).Results().At(0).Type())
		v.Meta = "ctx.Done"
		v.Base = ctx
		c.k(st, v)
	})
	w.iext("context.Context.Err", "ctx.Err(): non-nil once ctx is cancelled (observed via <-ctx.Done())", func(ex *Exec, st *State, c *callCtx) {
		ctx := c.args[0].T
		e := ex.fresh("ctxerr", "Int")
		st.assume("(>= " + e + " 0)")
		st.assume(implies(sel(st.region("G!cancelled", arr("Int", "Bool")), ctx), "(> "+e+" 0)"))
		// context errors are values of the context package: their dynamic type is none of the repository's types
		st.assume(implies("(> "+e+" 0)", eq(sel(st.region("G!dyn", arr("Int", "Int")), e), "(- 1)")))
		st.assume(eq(e, sel(st.region("G!ctxerr", arr("Int", "Int")), ctx)))
		c.k(st, term(e, types.Universe.Lookup("error").Type()))
	})

	// ---- sync
	w.ext("(*sync.Mutex).Lock", "Mutex.Lock: mutual exclusion; acquiring a mutex already held by the caller is a self-deadlock", externLock)
	w.ext("(*sync.Mutex).Unlock", "Mutex.Unlock: releases; unlocking a mutex not held is an error", externUnlock)
	w.ext("(*sync.RWMutex).Lock", "RWMutex.Lock: exclusive lock, as Mutex.Lock", externLock)
	w.ext("(*sync.RWMutex).Unlock", "RWMutex.Unlock: as Mutex.Unlock", externUnlock)
	w.ext("(*sync.RWMutex).RLock", "RWMutex.RLock: shared lock — other holders of the read lock run concurrently; it gives the lock's protection for reads only", externRLock)
	w.ext("(*sync.RWMutex).RUnlock", "RWMutex.RUnlock: releases the shared lock", externUnlock)
	w.ext("(*sync.Mutex).TryLock", "Mutex.TryLock: either acquires the mutex and returns true, or returns false without acquiring it", func(ex *Exec, st *State, c *callCtx) {
		miss := st.clone()
		ex.paths++
		if tag, _, ok := lockIdent(c.args[0]); ok && ex.atom != nil && ex.atom.ok && tag == ex.atom.tag {
			ex.record(miss, fmt.Sprintf("%s/atomic:must-acquire@%s", ex.rootName, c.site), "atomic", "false", "the operation only tries its mutex: when another delivery holds it the operation's critical section is skipped, which no sequential order of the deliveries explains")
		}
		inner := *c
		inner.k = func(s *State, _ Val) { c.k(s, term("true", tBool)) }
		externLock(ex, st, &inner)
		c.k(miss, term("false", tBool))
	})
	// typed atomics (sync/atomic.Bool, Int32, Int64, Uint32, Uint64): the value is one integer cell of the enclosing object
	for _, tn := range []string{"Int32", "Int64", "Uint32", "Uint64"} {
		tn := tn
		w.ext("(*sync/atomic."+tn+").Load", "atomic."+tn+".Load: the cell's value", func(ex *Exec, st *State, c *callCtx) {
			v := ex.loadPtr(st, c.args[0], nil)
			c.k(st, term(v.T, c.fn.Signature.Results().At(0).Type()))
		})
		w.ext("(*sync/atomic."+tn+").Store", "atomic."+tn+".Store: sets the cell", func(ex *Exec, st *State, c *callCtx) {
			cur := ex.loadPtr(st, c.args[0], nil)
			ex.storePtr(st, c.args[0], term(c.args[1].T, cur.Typ), nil)
			c.k(st, Val{K: KUnit})
		})
		w.ext("(*sync/atomic."+tn+").Add", "atomic."+tn+".Add: adds and returns the new value (mathematical integers; range of the type not checked)", func(ex *Exec, st *State, c *callCtx) {
			cur := ex.loadPtr(st, c.args[0], nil)
			nv := "(+ " + cur.T + " " + c.args[1].T + ")"
			ex.storePtr(st, c.args[0], term(nv, cur.Typ), nil)
			c.k(st, term(nv, c.fn.Signature.Results().At(0).Type()))
		})
	}
	w.ext("(*sync/atomic.Bool).Load", "atomic.Bool.Load: the flag (cell != 0)", func(ex *Exec, st *State, c *callCtx) {
		v := ex.loadPtr(st, c.args[0], nil)
		c.k(st, term(not(eq(v.T, "0")), tBool))
	})
	w.ext("(*sync/atomic.Bool).Store", "atomic.Bool.Store: sets the flag", func(ex *Exec, st *State, c *callCtx) {
		cur := ex.loadPtr(st, c.args[0], nil)
		ex.storePtr(st, c.args[0], term(ite(c.args[1].T, "1", "0"), cur.Typ), nil)
		c.k(st, Val{K: KUnit})
	})
	w.ext("sync/atomic.StoreInt64", "atomic.StoreInt64(p,v): *p = v", func(ex *Exec, st *State, c *callCtx) {
		ex.storePtr(st, c.args[0], c.args[1], nil)
		c.k(st, Val{K: KUnit})
	})
	w.ext("sync/atomic.LoadInt64", "atomic.LoadInt64(p): *p", func(ex *Exec, st *State, c *callCtx) {
		c.k(st, ex.loadPtr(st, c.args[0], nil))
	})
	w.ext("sync/atomic.AddInt64", "atomic.AddInt64(p,d): *p += d; returns new value", func(ex *Exec, st *State, c *callCtx) {
		old := ex.loadPtr(st, c.args[0], nil)
		nv := term("(+ "+old.T+" "+c.args[1].T+")", old.Typ)
		ex.record(st, ex.rootName+"/overflow@atomic.AddInt64:"+c.site, "safety", and("(<= (- 9223372036854775808) "+nv.T+")", "(<= "+nv.T+" 9223372036854775807)"), "int64 overflow in atomic add")
		ex.storePtr(st, c.args[0], nv, nil)
		c.k(st, nv)
	})

	// ---- os / bufio / io
	w.ext("os.Stat", "os.Stat: (info, err) with exactly one of them nil", func(ex *Exec, st *State, c *callCtx) {
		info := ex.fresh("fileinfo", "Int")
		e := ex.fresh("staterr", "Int")
		st.assume("(>= " + info + " 0)")
		st.assume("(>= " + e + " 0)")
		st.assume(eq(eq(e, "0"), not(eq(info, "0"))))
		st.setRegion("G!g_stat_info", "Int", info)
		st.setRegion("G!g_stat_err", "Int", e)
		rt := c.fn.Signature.Results()
		c.k(st, Val{K: KTuple, Fs: []Val{term(info, rt.At(0).Type()), term(e, rt.At(1).Type())}})
	})
	w.ext("os/signal.NotifyContext", "signal.NotifyContext(parent, sigs...): a context cancelled when parent is or when one of the signals arrives; stop releases resources (no modelled effect)", func(ex *Exec, st *State, c *callCtx) {
		ctx := st.allocRef("sigctx")
		g := st.region("G!g_sigctx", "Int")
		_ = g
		st.setRegion("G!g_sigctx", "Int", ctx)
		rt := c.fn.Signature.Results()
		c.k(st, Val{K: KTuple, Fs: []Val{term(ctx, rt.At(0).Type()), {K: KFunc, Typ: rt.At(1).Type(), Meta: "noop"}}})
	})
	w.ext("context.Background", "context.Background(): a non-nil context", func(ex *Exec, st *State, c *callCtx) {
		c.k(st, term(st.allocRef("bgctx"), c.fn.Signature.Results().At(0).Type()))
	})
	w.ext("log.Fatalln", "log.Fatalln: logs and exits with status 1 (ghost g_fatal = true; the path ends)", func(ex *Exec, st *State, c *callCtx) {
		st.setRegion("G!g_fatal", "Bool", "true")
		if ex.contract != nil {
			e := &env{vars: map[string]Val{}}
			for _, en := range ex.contract.ensures {
				if strings.HasPrefix(en.label, "fatal") {
					ex.proveSpec(st, en.expr, e, ex.rootName+"/ensures:"+en.label, "ensures", en.src)
				}
			}
		}
	})
	w.iext("io/fs.FileInfo.Mode", "FileInfo.Mode(): uninterpreted function of the info object, a uint32", func(ex *Exec, st *State, c *callCtx) {
		ex.nilCheckTerm(st, c.args[0].T, c.site)
		m := sel(st.region("G!filemode", arr("Int", "Int")), c.args[0].T)
		st.assume("(<= 0 " + m + ")")
		st.assume("(<= " + m + " 4294967295)")
		c.k(st, term(m, c.method.Type().(*types.Signature).Results().At(0).Type()))
	})
	w.iext("io/fs.FileInfo.Size", "FileInfo.Size(): uninterpreted function of the info object, >= 0", func(ex *Exec, st *State, c *callCtx) {
		ex.nilCheckTerm(st, c.args[0].T, c.site)
		m := sel(st.region("G!filesize", arr("Int", "Int")), c.args[0].T)
		st.assume("(<= 0 " + m + ")")
		st.assume("(<= " + m + " 9223372036854775807)")
		c.k(st, term(m, c.method.Type().(*types.Signature).Results().At(0).Type()))
	})
	w.ext("os.OpenFile", "os.OpenFile: (file, err) with exactly one of them nil; blocks on a FIFO until a writer opens it", func(ex *Exec, st *State, c *callCtx) {
		if !st.dry {
			ex.blocking = append(ex.blocking, blockingOp{Site: c.site, Kind: "external", Cancellable: false, Note: "os.OpenFile on a FIFO"})
		}
		if len(c.args) >= 3 {
			ex.assertAt(st, "OpenFile", map[string]Val{"name": c.args[0], "flag": c.args[1], "perm": c.args[2]})
		}
		f := ex.fresh("file", "Int")
		e := ex.fresh("openerr", "Int")
		st.assume("(>= " + f + " 0)")
		st.assume("(>= " + e + " 0)")
		st.assume(eq(eq(e, "0"), not(eq(f, "0"))))
		rt := c.fn.Signature.Results()
		c.k(st, Val{K: KTuple, Fs: []Val{term(f, rt.At(0).Type()), term(e, rt.At(1).Type())}})
	})
	w.ext("(*os.File).Close", "File.Close: may fail; ghost fileclosed", func(ex *Exec, st *State, c *callCtx) {
		e := ex.fresh("closeerr", "Int")
		st.assume("(>= " + e + " 0)")
		c.k(st, term(e, types.Universe.Lookup("error").Type()))
	})
	w.ext("(*os.File).Fd", "File.Fd: opaque descriptor number; documented side effect: the descriptor is put into blocking mode, after which Close from another goroutine no longer interrupts a parked Read — recorded as a non-cancellable blocking effect", func(ex *Exec, st *State, c *callCtx) {
		ex.nilCheckTerm(st, c.args[0].T, c.site)
		if !st.dry {
			ex.blocking = append(ex.blocking, blockingOp{Site: c.site, Kind: "fd-blocking-mode", Cancellable: false, Note: "(*os.File).Fd switches the descriptor to blocking mode: closing the file no longer wakes a blocked read on it"})
		}
		c.k(st, term(ex.fresh("fd", "Int"), c.fn.Signature.Results().At(0).Type()))
	})
	w.ext("(*os.File).Name", "File.Name: opaque", func(ex *Exec, st *State, c *callCtx) {
		c.k(st, term(ex.fresh("fname", "String"), tString))
	})
	w.ext("bufio.NewReader", "bufio.NewReader(r): fresh reader positioned at the start of r's remaining byte stream", func(ex *Exec, st *State, c *callCtx) {
		r := st.allocRef("bufreader")
		g := st.region("G!rdpos", arr("Int", "Int"))
		st.setRegion("G!rdpos", arr("Int", "Int"), store(g, r, "0"))
		gs := st.region("G!rdsrc", arr("Int", "Int"))
		st.setRegion("G!rdsrc", arr("Int", "Int"), store(gs, r, c.args[0].T))
		gr := st.region("G!rdrec", arr("Int", "Int"))
		st.setRegion("G!rdrec", arr("Int", "Int"), store(gr, r, "0"))
		gg := st.region("G!rdgood", arr("Int", "Int"))
		st.setRegion("G!rdgood", arr("Int", "Int"), store(gg, r, "0"))
		st.setRegion("G!rdpart", arr("Int", "String"), store(st.region("G!rdpart", arr("Int", "String")), r, "\"\""))
		st.setRegion("G!rdlast", "Int", r)
		st.setRegion("G!rdcount", "Int", "(+ "+st.region("G!rdcount", "Int")+" 1)")
		c.k(st, term(r, c.fn.Signature.Results().At(0).Type()))
	})
	w.ext("(*bufio.Reader).ReadString", bufioDoc, externReadString)
	w.ext("(*bufio.Reader).ReadBytes", bufioDoc+" ReadBytes is ReadString returning a fresh byte slice with the same content.", externReadString)
	w.ext("(*bufio.Reader).ReadSlice", bufioSliceDoc, externReadSlice)
	w.ext("github.com/cenkalti/backoff/v4.NewExponentialBackOff", "backoff.NewExponentialBackOff: fresh non-nil back-off policy (opaque)", func(ex *Exec, st *State, c *callCtx) {
		r := st.allocRef("backoff")
		c.k(st, term(r, c.fn.Signature.Results().At(0).Type()))
	})
	w.ext("path/filepath.Join", "filepath.Join(a, b): an uninterpreted function pathjoin of its two arguments (other arities: opaque string)", func(ex *Exec, st *State, c *callCtx) {
		if len(c.args) == 1 && c.args[0].K == KArray && len(c.args[0].Fs) == 2 {
			ex.declareFunRaw("pathjoin", "(String String) String")
			a, b := c.args[0].Fs[0], c.args[0].Fs[1]
			c.k(st, term("(pathjoin "+ex.asTerm(a)+" "+ex.asTerm(b)+")", tString))
			return
		}
		externPure(ex, st, c)
	})
	w.iext("io/fs.DirEntry.IsDir", "DirEntry.IsDir(): uninterpreted function of the entry", func(ex *Exec, st *State, c *callCtx) {
		ex.nilCheckTerm(st, c.args[0].T, c.site)
		c.k(st, term(sel(st.region("G!dirent_isdir", arr("Int", "Bool")), c.args[0].T), tBool))
	})
	w.iext("io/fs.DirEntry.Name", "DirEntry.Name(): uninterpreted function of the entry", func(ex *Exec, st *State, c *callCtx) {
		ex.nilCheckTerm(st, c.args[0].T, c.site)
		c.k(st, term(sel(st.region("G!dirent_name", arr("Int", "String")), c.args[0].T), tString))
	})
	w.ext("sort.Slice", "sort.Slice(x, less): sorts x in place; afterwards x holds the same elements (same length, every old element present and every new element an old one) and for all i < j: !less(j, i), where less is the caller's closure evaluated on the new contents", externSortSlice)
	errT := types.Universe.Lookup("error").Type()
	oneOf := func(ex *Exec, st *State, c *callCtx, prefix string) (string, string) {
		// (value, err): exactly one is nil; whichever is non-nil is a freshly allocated object
		r := st.allocRef(prefix)
		er := st.allocRef(prefix + "err")
		ok := ex.fresh(prefix+"ok", "Bool")
		v := ex.fresh(prefix+"v", "Int")
		e := ex.fresh(prefix+"e", "Int")
		st.assume(eq(v, ite(ok, r, "0")))
		st.assume(eq(e, ite(ok, "0", er)))
		return v, e
	}
	// ---- go-libaudit (dependency: assumed contracts)
	w.ext("github.com/elastic/go-libaudit/v2.NewReassembler", "NewReassembler: (reassembler, err) with exactly one of them nil; the stream callback is retained", func(ex *Exec, st *State, c *callCtx) {
		ex.assertAt(st, "NewReassembler", map[string]Val{"maxInFlight": c.args[0], "timeout": c.args[1], "stream": c.args[2]})
		r, e := oneOf(ex, st, c, "reass")
		g := st.region("G!reassstream", arr("Int", "Int"))
		st.setRegion("G!reassstream", arr("Int", "Int"), store(g, r, c.args[2].T))
		rt := c.fn.Signature.Results()
		c.k(st, Val{K: KTuple, Fs: []Val{term(r, rt.At(0).Type()), term(e, errT)}})
	})
	w.ext("(*github.com/elastic/go-libaudit/v2.Reassembler).Close", "Reassembler.Close: may fail; flushes pending events to the stream callback (not modelled)", func(ex *Exec, st *State, c *callCtx) {
		e := ex.fresh("closeerr", "Int")
		st.assume("(>= " + e + " 0)")
		c.k(st, term(e, errT))
	})
	w.ext("(*github.com/elastic/go-libaudit/v2.Reassembler).Maintain", "Reassembler.Maintain: non-nil error iff closed (unconstrained here)", func(ex *Exec, st *State, c *callCtx) {
		e := ex.fresh("mainterr", "Int")
		st.assume("(>= " + e + " 0)")
		c.k(st, term(e, errT))
	})
	w.ext("(*github.com/elastic/go-libaudit/v2.Reassembler).PushMessage", "Reassembler.PushMessage(msg): ghost push trace: pushmsg(pushlen) = msg, pushsrc(pushlen) = index of the line received last, pushedfor(that index) = pushlen+1", func(ex *Exec, st *State, c *callCtx) {
		ex.nilCheckTerm(st, c.args[0].T, c.site)
		ex.assertAt(st, "PushMessage", map[string]Val{"msg": c.args[1]})
		ii := arr("Int", "Int")
		n := st.region("G!push#len", "Int")
		st.setRegion("G!push!msg", ii, store(st.region("G!push!msg", ii), n, c.args[1].T))
		j := st.region("G!lastrecv", "Int")
		st.setRegion("G!push!src", ii, store(st.region("G!push!src", ii), n, j))
		st.setRegion("G!pushedat", ii, store(st.region("G!pushedat", ii), j, "(+ "+n+" 1)"))
		st.setRegion("G!push#len", "Int", "(+ "+n+" 1)")
		c.k(st, Val{K: KUnit})
	})
	w.ext("github.com/elastic/go-libaudit/v2/auparse.ParseLogLine", "ParseLogLine(line): (msg, err) with exactly one of them nil; ghost msgline(msg) = line", func(ex *Exec, st *State, c *callCtx) {
		m, e := oneOf(ex, st, c, "auditmsg")
		g := st.region("G!msgline", arr("Int", "String"))
		st.setRegion("G!msgline", arr("Int", "String"), store(g, m, c.args[0].T))
		st.setRegion("G!g_parse_err", "Int", e)
		rt := c.fn.Signature.Results()
		c.k(st, Val{K: KTuple, Fs: []Val{term(m, rt.At(0).Type()), term(e, errT)}})
	})
	w.ext("github.com/elastic/go-libaudit/v2/aucoalesce.CoalesceMessages", "CoalesceMessages(msgs): (event, err) with exactly one of them nil; ghost g_co_event / g_co_err; assert_at CoalesceMessages sees the argument as `records`", func(ex *Exec, st *State, c *callCtx) {
		ex.assertAt(st, "CoalesceMessages", map[string]Val{"records": c.args[0]})
		ev, e := oneOf(ex, st, c, "coalesced")
		st.setRegion("G!g_co_event", "Int", ev)
		st.setRegion("G!g_co_err", "Int", e)
		rt := c.fn.Signature.Results()
		c.k(st, Val{K: KTuple, Fs: []Val{term(ev, rt.At(0).Type()), term(e, errT)}})
	})
	w.ext("github.com/elastic/go-libaudit/v2/aucoalesce.ResolveIDs", "ResolveIDs(event): fills in names; no effect on the fields the daemon reads (assumed)", func(ex *Exec, st *State, c *callCtx) { c.k(st, Val{K: KUnit}) })
	w.iext("github.com/metal-toolbox/audito-maldito/processors/auditd/sessiontracker.Auditor.AuditdEvent", "Auditor.AuditdEvent(event) through the interface: any implementation, any result; ghost g_au_calls += 1, g_au_lastev = event, g_au_lastret = result", func(ex *Exec, st *State, c *callCtx) {
		ex.nilCheckTerm(st, c.args[0].T, c.site)
		e := ex.fresh("auerr", "Int")
		st.assume("(>= " + e + " 0)")
		st.assume(implies(not(eq(e, "0")), sel(st.region("A", arr("Int", "Bool")), e)))
		st.setRegion("G!g_au_calls", "Int", "(+ "+st.region("G!g_au_calls", "Int")+" 1)")
		st.setRegion("G!g_au_lastev", "Int", c.args[1].T)
		st.setRegion("G!g_au_lastret", "Int", e)
		c.k(st, term(e, errT))
	})
	w.iext("net/http.ResponseWriter.WriteHeader", "ResponseWriter.WriteHeader(code): ghost g_http_status = code, g_http_calls += 1", func(ex *Exec, st *State, c *callCtx) {
		ex.nilCheckTerm(st, c.args[0].T, c.site)
		st.setRegion("G!g_http_status", "Int", c.args[1].T)
		st.setRegion("G!g_http_calls", "Int", "(+ "+st.region("G!g_http_calls", "Int")+" 1)")
		c.k(st, Val{K: KUnit})
	})
}

// atoiTerms: (success condition, value) of strconv.Atoi on term s.
// atoiDigitsLemma: a valid statement about str.to_int (it is -1 on non-digit strings and below 10^len on digit strings),
// instantiated for the digit part of s.
func atoiDigitsLemma(s string) string {
	signed := `(or (str.prefixof "-" ` + s + `) (str.prefixof "+" ` + s + `))`
	digits := ite(signed, "(str.substr "+s+" 1 (- (str.len "+s+") 1))", s)
	return implies("(<= (str.len "+digits+") 18)", "(< (str.to_int "+digits+") 1000000000000000000)")
}

func atoiTerms(s string) (string, string) {
	syn := "(str.in_re " + s + " " + reAtoi + ")"
	neg := `(str.prefixof "-" ` + s + `)`
	signed := `(or (str.prefixof "-" ` + s + `) (str.prefixof "+" ` + s + `))`
	digits := ite(signed, "(str.substr "+s+" 1 (- (str.len "+s+") 1))", s)
	mag := "(str.to_int " + digits + ")"
	val := ite(neg, "(- "+mag+")", mag)
	inRange := and("(<= (- 9223372036854775808) "+val+")", "(<= "+val+" 9223372036854775807)")
	return and(syn, inRange), val
}

func isErrorIface(v Val) bool {
	if v.Typ == nil {
		return false
	}
	it, ok := v.Typ.Underlying().(*types.Interface)
	if !ok {
		return false
	}
	for i := 0; i < it.NumMethods(); i++ {
		if it.Method(i).Name() == "Error" {
			return true
		}
	}
	return false
}

func isMapStringString(t types.Type) bool {
	m, ok := t.Underlying().(*types.Map)
	return ok && scalarSort(m.Key()) == "String" && scalarSort(m.Elem()) == "String"
}

const bufioDoc = "bufio.Reader.ReadString(d) over the byte stream B behind the reader (independent of how writes chunk it): either returns (B[pos..j], nil) where j is the first index >= pos with B[j-1] == d, and advances pos to j; or returns (B[pos..end], err != nil) with no d in it and advances to end. The returned line ends with d iff err == nil and contains d nowhere else."

// externReadString models ReadString over the ghost stream position: the result is the next record.
// Ghost: G!rdpos[r] (bytes consumed), G!rdrec[r] (records returned), G!stream (records as an array per reader).
func externReadString(ex *Exec, st *State, c *callCtx) {
	r := c.args[0].T
	d := c.args[1].T // delimiter as integer code
	line := ex.fresh("line", "String")
	e := ex.fresh("rderr", "Int")
	st.assume("(>= " + e + " 0)")
	dch := "(str.from_code " + d + ")"
	body := ex.fresh("linebody", "String")
	st.assume(not("(str.contains " + body + " " + dch + ")"))
	st.assume(ite(eq(e, "0"), eq(line, "(str.++ "+body+" "+dch+")"), eq(line, body)))
	st.assume(implies(not(eq(e, "0")), sel(st.region("A", arr("Int", "Bool")), e)))
	// ghost stream: the k-th successful ReadString returns record k of the stream behind r
	nrec := st.region("G!rdrec", arr("Int", "Int"))
	k := sel(nrec, r)
	recs := st.region("G!rdstream", arr("Int", arr("Int", "String")))
	st.assume(implies(eq(e, "0"), eq(line, sel(sel(recs, r), k))))
	st.setRegion("G!rdrec", arr("Int", "Int"), store(nrec, r, ite(eq(e, "0"), "(+ "+k+" 1)", k)))
	good := st.region("G!rdgood", arr("Int", "Int"))
	st.setRegion("G!rdgood", arr("Int", "Int"), store(good, r, ite(eq(e, "0"), "(+ "+sel(good, r)+" (str.len "+line+"))", sel(good, r))))
	// assumption: a reader never delivers 2^62 bytes or more in total (file sizes)
	st.assume("(<= " + sel(st.region("G!rdgood", arr("Int", "Int")), r) + " 4611686018427387904)")
	pos := st.region("G!rdpos", arr("Int", "Int"))
	st.setRegion("G!rdpos", arr("Int", "Int"), store(pos, r, "(+ "+sel(pos, r)+" (str.len "+line+"))"))
	ge := st.region("G!rdlasterr", arr("Int", "Int"))
	st.setRegion("G!rdlasterr", arr("Int", "Int"), store(ge, r, e))
	if !st.dry {
		ex.blocking = append(ex.blocking, blockingOp{Site: c.site, Kind: "external", Cancellable: false, Note: "bufio.Reader.ReadString (blocking read)"})
	}
	rt := c.fn.Signature.Results()
	c.k(st, Val{K: KTuple, Fs: []Val{ex.lineResult(st, line, rt.At(0).Type()), term(e, rt.At(1).Type())}})
}

// lineResult wraps the string term of a line as the call's result type (string, or a fresh []byte with that ghost content).
func (ex *Exec) lineResult(st *State, line string, t types.Type) Val {
	if !isSliceT(t) {
		return term(line, t)
	}
	id := st.allocRef("bytes")
	bs := st.region("G!bytestr", arr("Int", "String"))
	st.setRegion("G!bytestr", arr("Int", "String"), store(bs, id, line))
	return Val{K: KSlice, Typ: t, Fs: []Val{term(id, tInt), term("0", tInt), term("(str.len "+line+")", tInt)}}
}

const bufioSliceDoc = "bufio.Reader.ReadSlice(d) over the byte stream B behind the reader: returns (chunk, nil) where chunk ends with the first d at or after pos; or (chunk, bufio.ErrBufferFull) with a non-empty chunk that contains no d (the record continues: the following chunks up to the next nil error concatenate to the record); or (rest, other error) with no d in it. The bytes are only valid until the next read (the model hands out a copy: aliasing of the internal buffer is NOT modelled)."

// externReadSlice: like ReadString, but a record may come back in several pieces (G!rdpart[r] accumulates the pieces of the
// record in progress); the k-th record of the stream equals the concatenation of the pieces.
func externReadSlice(ex *Exec, st *State, c *callCtx) {
	r := c.args[0].T
	d := c.args[1].T
	line := ex.fresh("chunk", "String")
	e := ex.fresh("rderr", "Int")
	st.assume("(>= " + e + " 0)")
	dch := "(str.from_code " + d + ")"
	body := ex.fresh("chunkbody", "String")
	st.assume(not("(str.contains " + body + " " + dch + ")"))
	st.assume(ite(eq(e, "0"), eq(line, "(str.++ "+body+" "+dch+")"), eq(line, body)))
	st.assume(implies(not(eq(e, "0")), sel(st.region("A", arr("Int", "Bool")), e)))
	full := "0"
	for g, id := range ex.w.errGlobals {
		if g.Pkg.Pkg.Path() == "bufio" && g.Name() == "ErrBufferFull" {
			full = strconv.Itoa(id)
		}
	}
	if full == "0" {
		panic(subsetErr{"bufio.ErrBufferFull not found"})
	}
	st.assume(implies(eq(e, full), "(> (str.len "+line+") 0)"))
	nrec := st.region("G!rdrec", arr("Int", "Int"))
	k := sel(nrec, r)
	recs := st.region("G!rdstream", arr("Int", arr("Int", "String")))
	part := st.region("G!rdpart", arr("Int", "String"))
	acc := "(str.++ " + sel(part, r) + " " + line + ")"
	st.assume(implies(eq(e, "0"), eq(acc, sel(sel(recs, r), k))))
	st.setRegion("G!rdpart", arr("Int", "String"), store(part, r, ite(eq(e, "0"), "\"\"", acc)))
	st.setRegion("G!rdrec", arr("Int", "Int"), store(nrec, r, ite(eq(e, "0"), "(+ "+k+" 1)", k)))
	good := st.region("G!rdgood", arr("Int", "Int"))
	st.setRegion("G!rdgood", arr("Int", "Int"), store(good, r, ite(eq(e, "0"), "(+ "+sel(good, r)+" (str.len "+acc+"))", sel(good, r))))
	st.assume("(<= " + sel(st.region("G!rdgood", arr("Int", "Int")), r) + " 4611686018427387904)")
	pos := st.region("G!rdpos", arr("Int", "Int"))
	st.setRegion("G!rdpos", arr("Int", "Int"), store(pos, r, "(+ "+sel(pos, r)+" (str.len "+line+"))"))
	ge := st.region("G!rdlasterr", arr("Int", "Int"))
	st.setRegion("G!rdlasterr", arr("Int", "Int"), store(ge, r, e))
	if !st.dry {
		ex.blocking = append(ex.blocking, blockingOp{Site: c.site, Kind: "external", Cancellable: false, Note: "bufio.Reader.ReadSlice (blocking read)"})
	}
	rt := c.fn.Signature.Results()
	c.k(st, Val{K: KTuple, Fs: []Val{ex.lineResult(st, line, rt.At(0).Type()), term(e, rt.At(1).Type())}})
}

// ---------------------------------------------------------------------------------------------
// EventWriter.Write and the ghost trace `out`

var auditEventType types.Type

func (ex *Exec) auditEventT() types.Type {
	if auditEventType != nil {
		return auditEventType
	}
	for _, sp := range ex.w.prog.AllPackages() {
		if sp.Pkg.Path() == "github.com/metal-toolbox/auditevent" {
			auditEventType = sp.Type("AuditEvent").Type()
		}
	}
	return auditEventType
}

// outLeafRegion: ghost array (index -> value) for one leaf of the AuditEvent snapshot.
func outLeafRegion(path, sort string) (string, string) {
	return "G!out!" + path, arr("Int", sort)
}

func externEventWrite(ex *Exec, st *State, c *callCtx) {
	w, e := c.args[0], c.args[1]
	ex.nilCheckTerm(st, w.T, c.site)
	ex.record(st, ex.rootName+"/nil:event@"+c.site, "safety", not(eq(e.T, "0")), "nil event passed to EventWriter.Write")
	// contract-level assertion attached to this write site
	ex.assertAt(st, "Write", map[string]Val{"e": e})
	fail := st.clone()
	ex.paths++
	// failure: fresh non-nil error, out unchanged
	fe := newErr(ex, fail, "werr")
	fail.setRegion("G!wfailed", "Bool", "true")
	fail.trace = append(fail.trace, "write:fail")
	st.trace = append(st.trace, "write:ok")
	// success: append snapshot
	et := ex.auditEventT()
	n := st.region("G!out#len", "Int")
	for _, lf := range leaves(et) {
		reg, s := outLeafRegion(lf.path, lf.sort)
		a := st.region(reg, s)
		st.setRegion(reg, s, store(a, n, st.readLeaf(et, lf.path, lf.sort, e.T)))
		// maps are snapshotted by content
		if mt, ok := lf.typ.Underlying().(*types.Map); ok {
			mref := st.readLeaf(et, lf.path, lf.sort, e.T)
			dom, ds := mapRegions(mt)
			_, domInner := arraySorts(ds)
			dr, dsrt := "G!out!"+lf.path+"#dom", arr("Int", domInner)
			st.setRegion(dr, dsrt, store(st.region(dr, dsrt), n, ite(eq(mref, "0"), zeroTerm(domInner), sel(st.region(dom, ds), mref))))
			vr, vs := mapValRegion(mt, leaves(mt.Elem())[0])
			_, valInner := arraySorts(vs)
			vreg, vsrt := "G!out!"+lf.path+"#val", arr("Int", valInner)
			st.setRegion(vreg, vsrt, store(st.region(vreg, vsrt), n, sel(st.region(vr, vs), mref)))
		}
	}
	refs := st.region("G!out!#ref", arr("Int", "Int"))
	st.setRegion("G!out!#ref", arr("Int", "Int"), store(refs, n, e.T))
	// ghost: position (index + 1) at which the event object was written
	wa := st.region("G!writtenat", arr("Int", "Int"))
	st.setRegion("G!writtenat", arr("Int", "Int"), store(wa, e.T, "(+ "+n+" 1)"))
	// ghost provenance of the event object (set by contracts of the functions that build events)
	for _, g := range []string{"src", "by"} {
		if _, ok := ex.w.ghostVars["g_ev"+g]; ok {
			a := st.region("G!out!#"+g, arr("Int", "Int"))
			st.setRegion("G!out!#"+g, arr("Int", "Int"), store(a, n, sel(st.region("G!g_ev"+g, arr("Int", "Int")), e.T)))
		}
	}
	st.setRegion("G!out#len", "Int", "(+ "+n+" 1)")
	errT := types.Universe.Lookup("error").Type()
	c.k(st, term("0", errT))
	c.k(fail, term(fe, errT))
}

// outField evaluates out[i].<name> in specs.
func (ex *Exec) outField(st *State, idx, name string) Val {
	et := ex.auditEventT()
	if name == "ref" {
		return term(sel(st.region("G!out!#ref", arr("Int", "Int")), idx), types.NewPointer(et))
	}
	if name == "by" {
		return term(sel(st.region("G!out!#by", arr("Int", "Int")), idx), types.NewPointer(et))
	}
	if name == "src" {
		if t := ex.w.typeByName("aucoalesce.Event"); t != nil {
			return term(sel(st.region("G!out!#src", arr("Int", "Int")), idx), types.NewPointer(t))
		}
		return Val{K: KTerm, T: sel(st.region("G!out!#src", arr("Int", "Int")), idx)}
	}
	return ex.outPath(st, idx, et, name, et)
}

func (ex *Exec) outPath(st *State, idx string, root types.Type, path string, t types.Type) Val {
	ft := root
	for _, part := range strings.Split(path, ".") {
		s, ok := ft.Underlying().(*types.Struct)
		if !ok {
			specFail("out: %s is not a struct", path)
		}
		found := false
		for i := 0; i < s.NumFields(); i++ {
			if s.Field(i).Name() == part {
				ft = s.Field(i).Type()
				found = true
			}
		}
		if !found {
			specFail("out: no field %s", path)
		}
	}
	if isStructT(ft) {
		return Val{K: KUnit, Meta: outStruct{idx, path, ft}}
	}
	s := scalarSort(ft)
	reg, rs := outLeafRegion(path, s)
	v := term(sel(st.region(reg, rs), idx), ft)
	if mt, ok := ft.Underlying().(*types.Map); ok {
		ks := scalarSort(mt.Key())
		vs := scalarSort(mt.Elem())
		v.Meta = mapSnap{
			dom:  sel(st.region("G!out!"+path+"#dom", arr("Int", arr(ks, "Bool"))), idx),
			val:  sel(st.region("G!out!"+path+"#val", arr("Int", arr(ks, vs))), idx),
			elem: mt.Elem(),
		}
	}
	return v
}

type outStruct struct {
	idx, path string
	typ       types.Type
}

// assertAt evaluates the root contract's `assert_at <key>#n` clauses at a call site.
func (ex *Exec) assertAt(st *State, callee string, vars map[string]Val) {
	if ex.contract == nil {
		return
	}
	for _, key := range []string{callee} {
		if len(ex.contract.asserts[key]) > 0 {
			if ex.assertSeen == nil {
				ex.assertSeen = map[string]bool{}
			}
			ex.assertSeen[key] = true
		}
		for _, a := range ex.contract.asserts[key] {
			e := &env{vars: vars}
			g := ex.evalBool(st, a.expr, e)
			ex.record(st, ex.rootName+"/assert_at:"+callee+":"+a.label, "assert", g, a.src)
		}
	}
}

var _ = ssa.NaiveForm

// externSortSlice: assumed contract of sort.Slice over the caller's less closure.
func externSortSlice(ex *Exec, st *State, c *callCtx) {
	inner, ok := c.args[0].Meta.(Val)
	less := c.args[1]
	if !ok || inner.K != KSlice || less.K != KFunc || less.Fn == nil {
		panic(subsetErr{"sort.Slice on something other than a slice and a closure literal"})
	}
	et := inner.Typ.Underlying().(*types.Slice).Elem()
	reg, sort := sliceRegion(et)
	es := scalarSort(et)
	id, ln := inner.Fs[0].T, inner.Fs[2].T
	if inner.Fs[1].T != "0" {
		panic(subsetErr{"sort.Slice on a re-sliced slice"})
	}
	a := st.region(reg, sort)
	oldc := ex.fresh("sort_old", arr("Int", es))
	st.assume(eq(oldc, sel(a, id)))
	newc := ex.fresh("sort_new", arr("Int", es))
	st.setRegion(reg, sort, store(a, id, newc))
	for k := range st.known {
		if strings.HasPrefix(k, reg+"|"+id+"|") {
			delete(st.known, k)
		}
	}
	inb := func(v string) string { return "(and (<= 0 " + v + ") (< " + v + " " + ln + "))" }
	// same elements: a bijection between new and old positions (Skolem functions perm / inv)
	perm := ex.fresh("sort_perm", "Int") + "$f"
	inv := ex.fresh("sort_inv", "Int") + "$f"
	ex.declareFunRaw(perm, "(Int) Int")
	ex.declareFunRaw(inv, "(Int) Int")
	st.assume("(forall ((k!s Int)) (! (=> " + inb("k!s") + " (and " + inb("("+perm+" k!s)") + " (= (select " + newc + " k!s) (select " + oldc + " (" + perm + " k!s))))) :pattern ((select " + newc + " k!s))))")
	st.assume("(forall ((m!s Int)) (! (=> " + inb("m!s") + " (and " + inb("("+inv+" m!s)") + " (= (select " + newc + " (" + inv + " m!s)) (select " + oldc + " m!s)))) :pattern ((select " + oldc + " m!s))))")
	// sortedness w.r.t. the closure: evaluate less(j, i) symbolically on the new contents
	probe := st.clone()
	probe.assume(inb("i!s"))
	probe.assume(inb("j!s"))
	ex.declare("i!s", "Int")
	ex.declare("j!s", "Int")
	var results []string
	npc := len(probe.pc)
	ndecl := len(ex.declOrder)
	var extra [][]string
	ex.callFn(probe, "sort.Slice:less", less.Fn, []Val{term("j!s", tInt), term("i!s", tInt)}, less.Binds, func(s2 *State, r Val) {
		results = append(results, ex.asTerm(r))
		extra = append(extra, append([]string(nil), s2.pc[npc:]...))
	})
	if len(results) != 1 {
		panic(subsetErr{"sort.Slice: the less closure has more than one path"})
	}
	// values created while evaluating the closure (results of contract calls, ...) depend on (i, j): turn the fresh
	// constants into Skolem functions of the two indices
	body := results[0]
	facts := strings.Join(extra[0], " ")
	for _, name := range ex.declOrder[ndecl:] {
		if !strings.Contains(body, name) && !strings.Contains(facts, name) {
			continue
		}
		fname := name + "$f"
		ex.declareFunRaw(fname, "(Int Int) "+ex.decls[name])
		app := "(" + fname + " i!s j!s)"
		body = replaceSymbol(body, name, app)
		facts = replaceSymbol(facts, name, app)
	}
	if facts != "" {
		st.assume("(forall ((i!s Int) (j!s Int)) (=> (and " + inb("i!s") + " " + inb("j!s") + ") (and " + facts + ")))")
	}
	st.assume("(forall ((i!s Int) (j!s Int)) (=> (and " + inb("i!s") + " " + inb("j!s") + " (< i!s j!s)) (not " + body + ")))")
	c.k(st, Val{K: KUnit})
}

// replaceSymbol replaces whole-symbol occurrences of name in an SMT term.
func replaceSymbol(t, name, by string) string {
	var b strings.Builder
	i := 0
	isSym := func(c byte) bool {
		return c != '(' && c != ')' && c != ' ' && c != '\n' && c != '"'
	}
	for i < len(t) {
		j := strings.Index(t[i:], name)
		if j < 0 {
			b.WriteString(t[i:])
			break
		}
		j += i
		end := j + len(name)
		okL := j == 0 || !isSym(t[j-1])
		okR := end >= len(t) || !isSym(t[end])
		b.WriteString(t[i:j])
		if okL && okR {
			b.WriteString(by)
		} else {
			b.WriteString(name)
		}
		i = end
	}
	return b.String()
}

func pow2(n int) string {
	return new(big.Int).Lsh(big.NewInt(1), uint(n)).String()
}
