package main

// Structural data-flow facts about cmd.RunNamedPipe (not symbolically executed: flag parsing, logger
// construction, errgroup): read off the SSA of the current tree. Back end "structural".

import (
	"fmt"
	"go/types"
	"strings"

	"golang.org/x/tools/go/ssa"
)

func structOb(name string, ok bool, note string) *Obligation {
	ob := &Obligation{Name: name, Kind: "structural", Solver: "structural", Detail: note}
	if ok {
		ob.Status = "discharged"
		ob.VCs = []VC{{goal: "true", note: note}}
	} else {
		ob.Status = "failed"
		ob.VCs = []VC{{goal: "false", note: note}}
	}
	return ob
}

// allocNamed finds the Alloc of a source-level variable in fn.
func allocNamed(fn *ssa.Function, name string) *ssa.Alloc {
	for _, b := range fn.Blocks {
		for _, in := range b.Instrs {
			if a, ok := in.(*ssa.Alloc); ok && a.Comment == name {
				return a
			}
		}
	}
	return nil
}

func callsTo(fn *ssa.Function, full string) []*ssa.Call {
	var out []*ssa.Call
	for _, b := range fn.Blocks {
		for _, in := range b.Instrs {
			if c, ok := in.(*ssa.Call); ok {
				if sc := c.Common().StaticCallee(); sc != nil {
					name := sc.String()
					if o := sc.Origin(); o != nil {
						name = o.String()
					}
					if name == full {
						out = append(out, c)
					}
				}
			}
		}
	}
	return out
}

// loadsOf reports whether v is a load (possibly through a local copy) of variable cell a / free variable named name.
func isLoadOfVar(v ssa.Value, name string) bool {
	u, ok := v.(*ssa.UnOp)
	if !ok {
		if ci, ok := v.(*ssa.ChangeInterface); ok {
			return isLoadOfVar(ci.X, name)
		}
		if ct, ok := v.(*ssa.ChangeType); ok {
			return isLoadOfVar(ct.X, name)
		}
		if mi, ok := v.(*ssa.MakeInterface); ok {
			return isLoadOfVar(mi.X, name)
		}
		return false
	}
	switch x := u.X.(type) {
	case *ssa.FreeVar:
		return x.Name() == name
	case *ssa.Alloc:
		return x.Comment == name
	}
	return false
}

// varOf: the name of the variable v is a load of ("" if v is not a plain load of a named variable).
func varOf(v ssa.Value) string {
	for {
		switch x := v.(type) {
		case *ssa.ChangeInterface:
			v = x.X
			continue
		case *ssa.ChangeType:
			v = x.X
			continue
		case *ssa.MakeInterface:
			v = x.X
			continue
		}
		break
	}
	u, ok := v.(*ssa.UnOp)
	if !ok {
		return ""
	}
	switch x := u.X.(type) {
	case *ssa.FreeVar:
		return x.Name()
	case *ssa.Alloc:
		return x.Comment
	}
	return ""
}

// workerBody is a function whose code runs as part of a worker: the closure handed to eg.Go, or a module function
// that closure calls (a worker extracted into a named function). env maps the function's own variable names to the
// variables of RunNamedPipe they carry (nil = the closure itself: captured variables keep their names).
type workerBody struct {
	fn  *ssa.Function
	env map[string]string
}

func (b workerBody) outer(v ssa.Value) string {
	n := varOf(v)
	if n == "" || b.env == nil {
		return n
	}
	return b.env[n]
}

// workerBodies: the closure and, one level down, the module functions it calls with RunNamedPipe's variables.
func workerBodies(cl *ssa.Function) []workerBody {
	out := []workerBody{{fn: cl}}
	for _, blk := range cl.Blocks {
		for _, in := range blk.Instrs {
			c, ok := in.(*ssa.Call)
			if !ok {
				continue
			}
			f := c.Common().StaticCallee()
			if f == nil || f.Blocks == nil || !strings.HasPrefix(fnPkgPath(f), modulePath+"/cmd") {
				continue
			}
			env := map[string]string{}
			for i, a := range c.Common().Args {
				if i < len(f.Params) {
					if n := varOf(a); n != "" {
						env[f.Params[i].Name()] = n
					}
				}
			}
			out = append(out, workerBody{fn: f, env: env})
		}
	}
	return out
}

func isContextType(t types.Type) bool {
	return types.TypeString(t, nil) == "context.Context"
}

func (w *World) runStructural(name string) []*Obligation {
	switch name {
	case "runnamedpipe-wiring":
		return w.wiringRunNamedPipe()
	}
	return []*Obligation{structOb("structural/"+name, false, "unknown structural check")}
}

func (w *World) wiringRunNamedPipe() []*Obligation {
	var obs []*Obligation
	fns := w.findFuncs(modulePath + "/cmd.RunNamedPipe")
	if len(fns) == 0 {
		return []*Obligation{structOb("wiring/RunNamedPipe:found", false, "cmd.RunNamedPipe not found")}
	}
	fn := fns[0]
	// errgroup context
	wc := callsTo(fn, "golang.org/x/sync/errgroup.WithContext")
	obs = append(obs, structOb("wiring/errgroup:with-context", len(wc) == 1, fmt.Sprintf("%d calls of errgroup.WithContext in RunNamedPipe (exactly one expected)", len(wc))))
	if len(wc) == 1 {
		obs = append(obs, structOb("wiring/errgroup:parent-context", isLoadOfVar(wc[0].Common().Args[0], "ctx"), "errgroup.WithContext is given RunNamedPipe's ctx parameter (so SIGTERM/SIGINT cancellation reaches the group)"))
	}
	// workers: every closure passed to eg.Go directly in RunNamedPipe hands groupCtx to every context parameter
	gos := callsTo(fn, "(*golang.org/x/sync/errgroup.Group).Go")
	obs = append(obs, structOb("wiring/workers:count", len(gos) >= 3, fmt.Sprintf("%d workers started with eg.Go in RunNamedPipe", len(gos))))
	for i, g := range gos {
		mc, ok := g.Common().Args[1].(*ssa.MakeClosure)
		if !ok {
			obs = append(obs, structOb(fmt.Sprintf("wiring/worker%d:closure", i+1), false, "eg.Go argument is not a closure literal"))
			continue
		}
		cl := mc.Fn.(*ssa.Function)
		bad := ""
		n := 0
		for _, wb := range workerBodies(cl) {
			for _, b := range wb.fn.Blocks {
				for _, in := range b.Instrs {
					c, ok := in.(*ssa.Call)
					if !ok {
						continue
					}
					sig := c.Common().Signature()
					args := c.Common().Args
					off := 0
					if sig.Recv() != nil && !c.Common().IsInvoke() {
						off = 1
					}
					for p := 0; p < sig.Params().Len(); p++ {
						if isContextType(sig.Params().At(p).Type()) && p+off < len(args) {
							n++
							if wb.outer(args[p+off]) != "groupCtx" {
								bad = fmt.Sprintf("call %s receives a context other than groupCtx", c.Common().Value.Name())
							}
						}
					}
				}
			}
		}
		obs = append(obs, structOb(fmt.Sprintf("wiring/%s:group-context", shortFn(cl)), bad == "" && n > 0, fmt.Sprintf("%d context arguments in %s, all the errgroup's context %s", n, shortFn(cl), bad)))
	}
	// helpers that are handed the errgroup (they start group members) must be handed the group's context as well
	nh, badh := 0, ""
	for _, b := range fn.Blocks {
		for _, in := range b.Instrs {
			c, ok := in.(*ssa.Call)
			if !ok || c.Common().IsInvoke() {
				continue
			}
			args := c.Common().Args
			hasEg := false
			for _, a := range args {
				if isLoadOfVar(a, "eg") {
					hasEg = true
				}
			}
			if !hasEg || c.Common().StaticCallee() == nil {
				continue
			}
			sig := c.Common().Signature()
			for p := 0; p < sig.Params().Len() && p < len(args); p++ {
				if isContextType(sig.Params().At(p).Type()) {
					nh++
					if !isLoadOfVar(args[p], "groupCtx") {
						badh = fmt.Sprintf("%s is given the errgroup but a context other than groupCtx", c.Common().StaticCallee().Name())
					}
				}
			}
		}
	}
	obs = append(obs, structOb("wiring/helpers:group-context", badh == "", fmt.Sprintf("%d helper calls receive the errgroup together with a context, all the errgroup's context %s", nh, badh)))
	// RunNamedPipe returns eg.Wait()'s error
	waits := callsTo(fn, "(*golang.org/x/sync/errgroup.Group).Wait")
	okWait := false
	if len(waits) == 1 {
		if refs := waits[0].Referrers(); refs != nil {
			for _, r := range *refs {
				if st, ok := r.(*ssa.Store); ok {
					if a, ok := st.Addr.(*ssa.Alloc); ok {
						// some return path returns a load of that cell when it is non-nil
						for _, b := range fn.Blocks {
							for _, in := range b.Instrs {
								if s2, ok := in.(*ssa.Store); ok {
									if u, ok := s2.Val.(*ssa.UnOp); ok && u.X == a {
										if ra, ok := s2.Addr.(*ssa.Alloc); ok && ra.Comment == "" {
											okWait = true // stored into the result cell
										}
									}
								}
							}
						}
					}
				}
			}
		}
	}
	obs = append(obs, structOb("wiring/returns:wait-error", okWait, "the error of eg.Wait() is stored into RunNamedPipe's result"))
	// one EventWriter, shared by both processors (C10); one logins channel from the sshd processor to the audit processor (C05)
	nw := callsTo(fn, "github.com/metal-toolbox/auditevent.NewDefaultAuditEventWriter")
	obs = append(obs, structOb("wiring/eventwriter:single", len(nw) == 1, fmt.Sprintf("%d EventWriters created in RunNamedPipe", len(nw))))
	// the events output is opened append-only: concurrent writers and restarts never overwrite earlier events
	// (necessary condition of C10's "whole events" half; the atomicity of one write(2) with O_APPEND is the OS's)
	if len(nw) == 1 {
		ok, note := w.appendOnlySource(fn, nw[0].Common().Args[0])
		obs = append(obs, structOb("wiring/eventwriter:append-only-file", ok, note))
	}
	sshdOK, auditdOK, loginsSshd, loginsAuditd, auditsOK := false, false, false, false, false
	for _, g := range gos {
		mc, ok := g.Common().Args[1].(*ssa.MakeClosure)
		if !ok {
			continue
		}
		cl0 := mc.Fn.(*ssa.Function)
		for _, wb := range workerBodies(cl0) {
			cl := wb.fn
			for _, c := range callsTo(cl, modulePath+"/processors/sshd.NewSshdProcessor") {
				a := c.Common().Args
				if len(a) >= 5 && wb.outer(a[4]) == "eventWriter" {
					sshdOK = true
				}
				if len(a) >= 2 && wb.outer(a[1]) == "logins" {
					loginsSshd = true
				}
			}
			for _, b := range cl.Blocks {
				for _, in := range b.Instrs {
					st, ok := in.(*ssa.Store)
					if !ok {
						continue
					}
					fa, ok := st.Addr.(*ssa.FieldAddr)
					if !ok {
						continue
					}
					stT, ok := derefType(fa.X.Type()).Underlying().(*types.Struct)
					if !ok || !strings.HasSuffix(types.TypeString(derefType(fa.X.Type()), nil), "auditd.Auditd") {
						continue
					}
					switch stT.Field(fa.Field).Name() {
					case "EventW":
						auditdOK = auditdOK || wb.outer(st.Val) == "eventWriter"
					case "Logins":
						loginsAuditd = loginsAuditd || wb.outer(st.Val) == "logins"
					case "Audits":
						auditsOK = auditsOK || wb.outer(st.Val) == "auditLogChan"
					}
				}
			}
		}
	}
	obs = append(obs, structOb("wiring/eventwriter:shared", sshdOK && auditdOK, "the same eventWriter variable is given to NewSshdProcessor and to Auditd.EventW"))
	obs = append(obs, structOb("wiring/logins:channel", loginsSshd && loginsAuditd && len(callsToMakeChan(fn, "RemoteUserLogin")) == 1, "one logins channel: given to NewSshdProcessor and read by Auditd.Logins"))
	obs = append(obs, structOb("wiring/audits:channel", auditsOK, "the audit line channel written by the audit log ingester is Auditd.Audits"))
	return obs
}

func callsToMakeChan(fn *ssa.Function, elemSuffix string) []*ssa.MakeChan {
	var out []*ssa.MakeChan
	for _, b := range fn.Blocks {
		for _, in := range b.Instrs {
			if mc, ok := in.(*ssa.MakeChan); ok && strings.HasSuffix(types.TypeString(mc.Type().Underlying().(*types.Chan).Elem(), nil), elemSuffix) {
				out = append(out, mc)
			}
		}
	}
	return out
}

// appendOnlySource: v (the io.Writer given to the event writer) is the file returned by a call that opens it with
// O_WRONLY|O_APPEND — either os.OpenFile with constant flags, or a function whose body contains such a call and no
// other os.OpenFile call (the auditevent helper), looked up in the SSA of the dependency.
func (w *World) appendOnlySource(fn *ssa.Function, v ssa.Value) (bool, string) {
	// peel interface conversion and the load of the local variable
	for {
		switch x := v.(type) {
		case *ssa.MakeInterface:
			v = x.X
			continue
		case *ssa.ChangeInterface:
			v = x.X
			continue
		}
		break
	}
	ld, ok := v.(*ssa.UnOp)
	if !ok {
		return false, "the event writer's sink is not a local variable"
	}
	al, ok := ld.X.(*ssa.Alloc)
	if !ok {
		return false, "the event writer's sink is not a local variable"
	}
	var src *ssa.Call
	n := 0
	for _, r := range *al.Referrers() {
		st, ok := r.(*ssa.Store)
		if !ok || st.Addr != al {
			continue
		}
		n++
		val := st.Val
		if ex, ok := val.(*ssa.Extract); ok {
			val = ex.Tuple
		}
		if c, ok := val.(*ssa.Call); ok {
			src = c
		}
	}
	if n != 1 || src == nil {
		return false, fmt.Sprintf("variable %s is not assigned exactly once from a call", al.Comment)
	}
	const oAppend, oAccMode, oWronly = 0x400, 0x3, 0x1
	flagsOK := func(c *ssa.Call) (bool, string) {
		if len(c.Common().Args) < 2 {
			return false, "os.OpenFile call without flags"
		}
		k, ok := c.Common().Args[1].(*ssa.Const)
		if !ok || k.Value == nil {
			return false, "os.OpenFile with non-constant flags"
		}
		f := k.Int64()
		if f&oAppend == 0 || f&oAccMode != oWronly {
			return false, fmt.Sprintf("os.OpenFile flags %#x are not O_WRONLY|O_APPEND", f)
		}
		return true, fmt.Sprintf("flags %#x", f)
	}
	callee := src.Common().StaticCallee()
	if callee == nil {
		return false, "the output file comes from a dynamic call"
	}
	if callee.String() == "os.OpenFile" {
		ok, note := flagsOK(src)
		return ok, "events output opened in RunNamedPipe by os.OpenFile: " + note
	}
	opens := callsTo(callee, "os.OpenFile")
	if len(opens) == 0 {
		// one level deeper (the helper delegates to an inner function)
		for _, b := range callee.Blocks {
			for _, in := range b.Instrs {
				if c, ok := in.(*ssa.Call); ok {
					if inner := c.Common().StaticCallee(); inner != nil && inner.Blocks != nil {
						opens = append(opens, callsTo(inner, "os.OpenFile")...)
					}
				}
			}
		}
	}
	if len(opens) == 0 {
		return false, "no os.OpenFile call found in " + callee.String()
	}
	for _, o := range opens {
		if ok, note := flagsOK(o); !ok {
			return false, callee.String() + ": " + note
		}
	}
	return true, fmt.Sprintf("events output opened by %s, whose %d os.OpenFile call(s) use O_WRONLY|O_APPEND", callee.String(), len(opens))
}
