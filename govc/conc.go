package main

// Concurrency layer: lock sets, guarded regions, lock order, lock invariants.

import (
	"fmt"
	"go/types"
	"strings"

	"golang.org/x/tools/go/ssa"
)

// guardDecl: accesses to <typ>.<field> (and, for map/slice fields, to the contents) require the
// mutex <typ>.<lock> of the same object to be held.
type guardDecl struct {
	pkg   string
	typ   string
	field string
	lock  string
}

func parseGuard(rest, pkg string) (guardDecl, error) {
	// guard <Type>.<field> by <lockfield>
	fs := strings.Fields(rest)
	if len(fs) != 3 || fs[1] != "by" {
		return guardDecl{}, fmt.Errorf("bad guard clause %q", rest)
	}
	i := strings.LastIndex(fs[0], ".")
	if i < 0 {
		return guardDecl{}, fmt.Errorf("bad guard target %q", fs[0])
	}
	return guardDecl{pkg: pkg, typ: fs[0][:i], field: fs[0][i+1:], lock: fs[2]}, nil
}

type guardOrigin struct {
	root types.Type
	path string
}

func typeBaseName(t types.Type) string {
	if n, ok := types.Unalias(t).(*types.Named); ok {
		return n.Obj().Name()
	}
	return t.String()
}

func (ex *Exec) guardFor(root types.Type, path string) *guardDecl {
	if root == nil {
		return nil
	}
	name := typeBaseName(root)
	for i := range ex.w.guards {
		g := &ex.w.guards[i]
		if g.typ == name && (g.field == path || strings.HasPrefix(path, g.field+".")) {
			return g
		}
	}
	return nil
}

var tagTypeTable = map[string]types.Type{}

func lockTag(root types.Type, field string) string {
	n := typeName(root)
	tagTypeTable[n] = root
	return n + "." + field
}

// heldGoal: some held lock with the given tag has base == ref.
func (st *State) heldGoal(tag, ref string) string {
	var cs []string
	for _, h := range st.locks {
		i := strings.Index(h, "@")
		if h[:i] == tag {
			cs = append(cs, eq(h[i+1:], ref))
		}
	}
	return or(cs...)
}

func (ex *Exec) guardCheck(st *State, root types.Type, path, base string, instr ssa.Instruction, write bool) {
	g := ex.guardFor(root, path)
	if g == nil || instr == nil {
		return
	}
	// constructors: a freshly allocated object is not shared yet
	if st.knownNonNil(base) && strings.HasPrefix(base, "new_") {
		return
	}
	goal := st.heldGoal(lockTag(root, g.lock), base)
	ex.record(st, fmt.Sprintf("%s/guard:%s.%s@%s", ex.rootName, g.typ, g.field, siteOf(instr)), "guard", goal, "access to guarded field without its lock")
}

func (ex *Exec) guardCheckMap(st *State, m Val, instr ssa.Instruction, write bool) {
	o, ok := m.Meta.(guardOrigin)
	if !ok {
		return
	}
	g := ex.guardFor(o.root, o.path)
	if g == nil {
		return
	}
	goal := st.heldGoal(lockTag(o.root, g.lock), m.Base)
	ex.record(st, fmt.Sprintf("%s/guard:%s.%s@%s", ex.rootName, g.typ, g.field, siteOf(instr)), "guard", goal, "access to guarded map without its lock")
	ex.atomicRequire(st, "map-access", siteOf(instr))
}

func (ex *Exec) guardCheckMapVal(st *State, m Val, write bool, c *ssa.CallCommon) {
	o, ok := m.Meta.(guardOrigin)
	if !ok {
		return
	}
	g := ex.guardFor(o.root, o.path)
	if g == nil {
		return
	}
	goal := st.heldGoal(lockTag(o.root, g.lock), m.Base)
	ex.record(st, fmt.Sprintf("%s/guard:%s.%s@delete:%s", ex.rootName, g.typ, g.field, shortFn(st.top().fn)), "guard", goal, "delete on guarded map without its lock")
	ex.atomicRequire(st, "map-delete", shortFn(st.top().fn))
}

func lockIdent(v Val) (tag, base string, ok bool) {
	if v.K != KHeapPtr || v.Root == nil {
		return "", "", false
	}
	path, _ := pathOf(v.Root, v.Path)
	return lockTag(v.Root, path), v.Base, true
}

func externLock(ex *Exec, st *State, c *callCtx) {
	tag, base, ok := lockIdent(c.args[0])
	if !ok {
		panic(subsetErr{"Lock on a mutex that is not a struct field"})
	}
	// self-deadlock: the lock must not already be held by this goroutine
	var cs []string
	for _, h := range st.locks {
		i := strings.Index(h, "@")
		if h[:i] == tag {
			cs = append(cs, not(eq(h[i+1:], base)))
		}
	}
	ex.lockSites++
	ex.record(st, fmt.Sprintf("%s/lockorder:%s@%s", ex.rootName, tag, c.site), "lockorder", and(cs...), "re-acquiring a held mutex (self-deadlock)")
	// declared lock order: no lock ranked after `tag` may be held
	for _, h := range st.locks {
		i := strings.Index(h, "@")
		if r1, r2 := ex.w.lockRank(h[:i]), ex.w.lockRank(tag); r1 >= 0 && r2 >= 0 && r1 > r2 {
			ex.record(st, fmt.Sprintf("%s/lockorder:%s-after-%s@%s", ex.rootName, tag, h[:i], c.site), "lockorder", "false", "lock acquired against the declared order")
		}
	}
	if ex.atom != nil && ex.atom.ok {
		if tag == ex.atom.tag {
			st.atomicAcq++
			if st.atomicAcq > 1 {
				ex.record(st, fmt.Sprintf("%s/atomic:once@%s", ex.rootName, c.site), "atomic", "false", "the operation's mutex is acquired a second time: the operation is split into several critical sections")
			}
		} else {
			ex.atomicRequire(st, "lock:"+tag, c.site)
		}
	}
	st.locks = append(append([]string(nil), st.locks...), tag+"@"+base)
	ex.onAcquire(st, tag, base)
	c.k(st, Val{K: KUnit})
}

func externUnlock(ex *Exec, st *State, c *callCtx) {
	tag, base, ok := lockIdent(c.args[0])
	if !ok {
		panic(subsetErr{"Unlock on a mutex that is not a struct field"})
	}
	// release the most recent matching entry (syntactic match on base term)
	idx := -1
	for i := len(st.locks) - 1; i >= 0; i-- {
		if st.locks[i] == tag+"@"+base {
			idx = i
			break
		}
	}
	if idx < 0 {
		ex.record(st, fmt.Sprintf("%s/unlock-unheld:%s@%s", ex.rootName, tag, c.site), "lockorder", "false", "unlock of a mutex that is not held")
		c.k(st, Val{K: KUnit})
		return
	}
	ex.onRelease(st, tag, base)
	nl := append([]string(nil), st.locks[:idx]...)
	nl = append(nl, st.locks[idx+1:]...)
	st.locks = nl
	c.k(st, Val{K: KUnit})
}

func (w *World) lockRank(tag string) int {
	for i, t := range w.lockOrder {
		if strings.Contains(tag, t) {
			return i
		}
	}
	return -1
}

// onAcquire: acquiring the mutex that guards a map field
//   - in concurrency mode havocs the map's contents (any other goroutine respecting the same discipline may
//     have changed them since this goroutine last held the lock), and
//   - always records the contents at the acquisition as the ghost snapshot atlock(m): the state of the
//     critical section's linearisation point, which postconditions under concurrency refer to instead of old().
func (ex *Exec) onAcquire(st *State, tag, base string) {
	for i := range ex.w.guards {
		g := &ex.w.guards[i]
		if !strings.HasSuffix(tag, "."+g.lock) {
			continue
		}
		// tag = <typeName>.<lock>; find the struct type by name among regions: the guarded field region
		root := ex.typeOfTag(tag)
		if root == nil || typeBaseName(root) != g.typ {
			continue
		}
		s, ok := root.Underlying().(*types.Struct)
		if !ok {
			continue
		}
		for fi := 0; fi < s.NumFields(); fi++ {
			if s.Field(fi).Name() != g.field {
				continue
			}
			mt, ok := s.Field(fi).Type().Underlying().(*types.Map)
			if !ok {
				continue
			}
			ref := st.readLeaf(root, g.field, "Int", base)
			dom, ds := mapRegions(mt)
			_, domInner := arraySorts(ds)
			if ex.mode.concurrency {
				d := st.region(dom, ds)
				st.setRegion(dom, ds, store(d, ref, ex.fresh("conc_dom", domInner)))
				for _, lf := range leaves(mt.Elem()) {
					vr, vs := mapValRegion(mt, lf)
					_, vin := arraySorts(vs)
					a := st.region(vr, vs)
					st.setRegion(vr, vs, store(a, ref, ex.fresh("conc_val", vin)))
				}
			}
			sd, sds := "G!snap!"+typeName(mt)+"!dom", ds
			st.setRegion(sd, sds, store(st.region(sd, sds), ref, sel(st.region(dom, ds), ref)))
			for _, lf := range leaves(mt.Elem()) {
				vr, vs := mapValRegion(mt, lf)
				sv := "G!snap!" + typeName(mt) + "!val"
				if lf.path != "" {
					sv += "!" + lf.path
				}
				st.setRegion(sv, vs, store(st.region(sv, vs), ref, sel(st.region(vr, vs), ref)))
			}
		}
	}
}

func (ex *Exec) onRelease(st *State, tag, base string) {}

// typeOfTag finds the struct type whose lockTag prefix equals tag's type part.
func (ex *Exec) typeOfTag(tag string) types.Type {
	i := strings.LastIndex(tag, ".")
	if i < 0 {
		return nil
	}
	want := tag[:i]
	if t, ok := ex.tagTypes[want]; ok {
		return t
	}
	return nil
}

type lockInv struct {
	tag      string
	regions  []string
	invs     []clause
	selfType types.Type
}

func (w *World) lockInvFor(tag string) *lockInv {
	for _, li := range w.lockInvs {
		if strings.Contains(tag, li.tag) {
			return li
		}
	}
	return nil
}

// ---- atomicity of public operations (C03) --------------------------------------------------------------
// Contract clause `atomic <mutexField> owns <Type>,...` on a method: the receiver's mutex is acquired exactly
// once, and every acquisition of another lock, every access to a guarded map and every access to a field of
// an owned type happens while it is held. Operations that satisfy this run entirely inside one critical
// section of one mutex and are therefore serialisable in lock-acquisition order.

type atomicSpec struct {
	tag, base string
	owns      []string
	ok        bool
}

func (ex *Exec) atomicInit(st *State) {
	ct := ex.contract
	if ct == nil || ct.atomic == "" || ex.atom != nil {
		return
	}
	fs := strings.Fields(ct.atomic)
	a := &atomicSpec{}
	ex.atom = a
	if len(ex.root.Params) == 0 {
		return
	}
	recv := ex.entryVals[ex.root.Params[0].Name()]
	rt := derefType(ex.root.Params[0].Type())
	if s, ok := rt.Underlying().(*types.Struct); ok {
		for i := 0; i < s.NumFields(); i++ {
			if s.Field(i).Name() == fs[0] {
				a.ok = true
			}
		}
	}
	a.tag, a.base = lockTag(rt, fs[0]), recv.T
	for i := 1; i < len(fs); i++ {
		if fs[i] == "owns" {
			continue
		}
		for _, t := range strings.Split(fs[i], ",") {
			if t != "" {
				a.owns = append(a.owns, t)
			}
		}
	}
	if !a.ok {
		ob := ex.obl(ex.rootName+"/atomic:lock-field", "structural")
		ob.VCs = append(ob.VCs, VC{goal: "false", note: "the operation is declared atomic under mutex field " + fs[0] + " but the receiver type has no such field: its accesses to shared state are spread over several critical sections of different locks"})
	}
}

func (ex *Exec) atomicRequire(st *State, what, site string) {
	if ex.atom == nil || !ex.atom.ok {
		return
	}
	ex.record(st, fmt.Sprintf("%s/atomic:%s@%s", ex.rootName, what, site), "atomic", st.heldGoal(ex.atom.tag, ex.atom.base), what+" outside the operation's critical section")
}

func (ex *Exec) atomicOwned(st *State, root types.Type, base string, site string) {
	if ex.atom == nil || !ex.atom.ok || root == nil {
		return
	}
	name := typeBaseName(root)
	for _, o := range ex.atom.owns {
		if o == name {
			if strings.HasPrefix(base, "new_") && st.knownNonNil(base) && !st.published[base] {
				return // not yet shared
			}
			ex.atomicRequire(st, "access-to-"+name, site)
		}
	}
}

// externRLock: a shared (read) acquisition. For an operation declared `atomic <mu> owns ...` the read lock on its own
// mutex is not ownership: the obligation atomic:exclusive fails. Otherwise it is tracked like a lock (order, release).
func externRLock(ex *Exec, st *State, c *callCtx) {
	tag, _, ok := lockIdent(c.args[0])
	if !ok {
		panic(subsetErr{"RLock on a mutex that is not a struct field"})
	}
	if ex.atom != nil && ex.atom.ok && tag == ex.atom.tag {
		ex.record(st, fmt.Sprintf("%s/atomic:exclusive@%s", ex.rootName, c.site), "atomic", "false", "the operation's mutex is only read-locked: other operations holding the read lock run concurrently with this one")
	}
	externLock(ex, st, c)
}
