package main

// Concurrency layer: lock sets, guarded regions, lock order, lock invariants.

import (
	"fmt"
	"go/types"
	"strings"

	"golang.org/x/tools/go/ssa"
)

// guardDecl: accesses to <typ>.<field> (and, for map/slice fields, to the contents) require the
// mutex <typ>.<lock> of the same object to be held.
type guardDecl struct {
	pkg   string
	typ   string
	field string
	lock  string
}

func parseGuard(rest, pkg string) (guardDecl, error) {
	// guard <Type>.<field> by <lockfield>
	fs := strings.Fields(rest)
	if len(fs) != 3 || fs[1] != "by" {
		return guardDecl{}, fmt.Errorf("bad guard clause %q", rest)
	}
	i := strings.LastIndex(fs[0], ".")
	if i < 0 {
		return guardDecl{}, fmt.Errorf("bad guard target %q", fs[0])
	}
	return guardDecl{pkg: pkg, typ: fs[0][:i], field: fs[0][i+1:], lock: fs[2]}, nil
}

type guardOrigin struct {
	root types.Type
	path string
}

func typeBaseName(t types.Type) string {
	if n, ok := types.Unalias(t).(*types.Named); ok {
		return n.Obj().Name()
	}
	return t.String()
}

func (ex *Exec) guardFor(root types.Type, path string) *guardDecl {
	if root == nil {
		return nil
	}
	name := typeBaseName(root)
	for i := range ex.w.guards {
		g := &ex.w.guards[i]
		if g.typ == name && (g.field == path || strings.HasPrefix(path, g.field+".")) {
			return g
		}
	}
	return nil
}

func lockTag(root types.Type, field string) string { return typeName(root) + "." + field }

// heldGoal: some held lock with the given tag has base == ref.
func (st *State) heldGoal(tag, ref string) string {
	var cs []string
	for _, h := range st.locks {
		i := strings.Index(h, "@")
		if h[:i] == tag {
			cs = append(cs, eq(h[i+1:], ref))
		}
	}
	return or(cs...)
}

func (ex *Exec) guardCheck(st *State, root types.Type, path, base string, instr ssa.Instruction, write bool) {
	g := ex.guardFor(root, path)
	if g == nil || instr == nil {
		return
	}
	// constructors: a freshly allocated object is not shared yet
	if st.knownNonNil(base) && strings.HasPrefix(base, "new_") {
		return
	}
	goal := st.heldGoal(lockTag(root, g.lock), base)
	ex.record(st, fmt.Sprintf("%s/guard:%s.%s@%s", ex.rootName, g.typ, g.field, siteOf(instr)), "guard", goal, "access to guarded field without its lock")
}

func (ex *Exec) guardCheckMap(st *State, m Val, instr ssa.Instruction, write bool) {
	o, ok := m.Meta.(guardOrigin)
	if !ok {
		return
	}
	g := ex.guardFor(o.root, o.path)
	if g == nil {
		return
	}
	goal := st.heldGoal(lockTag(o.root, g.lock), m.Base)
	ex.record(st, fmt.Sprintf("%s/guard:%s.%s@%s", ex.rootName, g.typ, g.field, siteOf(instr)), "guard", goal, "access to guarded map without its lock")
	ex.atomicRequire(st, "map-access", siteOf(instr))
}

func (ex *Exec) guardCheckMapVal(st *State, m Val, write bool, c *ssa.CallCommon) {
	o, ok := m.Meta.(guardOrigin)
	if !ok {
		return
	}
	g := ex.guardFor(o.root, o.path)
	if g == nil {
		return
	}
	goal := st.heldGoal(lockTag(o.root, g.lock), m.Base)
	ex.record(st, fmt.Sprintf("%s/guard:%s.%s@delete:%s", ex.rootName, g.typ, g.field, shortFn(st.top().fn)), "guard", goal, "delete on guarded map without its lock")
	ex.atomicRequire(st, "map-delete", shortFn(st.top().fn))
}

func lockIdent(v Val) (tag, base string, ok bool) {
	if v.K != KHeapPtr || v.Root == nil {
		return "", "", false
	}
	path, _ := pathOf(v.Root, v.Path)
	return lockTag(v.Root, path), v.Base, true
}

func externLock(ex *Exec, st *State, c *callCtx) {
	tag, base, ok := lockIdent(c.args[0])
	if !ok {
		panic(subsetErr{"Lock on a mutex that is not a struct field"})
	}
	// self-deadlock: the lock must not already be held by this goroutine
	var cs []string
	for _, h := range st.locks {
		i := strings.Index(h, "@")
		if h[:i] == tag {
			cs = append(cs, not(eq(h[i+1:], base)))
		}
	}
	ex.lockSites++
	ex.record(st, fmt.Sprintf("%s/lockorder:%s@%s", ex.rootName, tag, c.site), "lockorder", and(cs...), "re-acquiring a held mutex (self-deadlock)")
	// declared lock order: no lock ranked after `tag` may be held
	for _, h := range st.locks {
		i := strings.Index(h, "@")
		if r1, r2 := ex.w.lockRank(h[:i]), ex.w.lockRank(tag); r1 >= 0 && r2 >= 0 && r1 > r2 {
			ex.record(st, fmt.Sprintf("%s/lockorder:%s-after-%s@%s", ex.rootName, tag, h[:i], c.site), "lockorder", "false", "lock acquired against the declared order")
		}
	}
	if ex.atom != nil && ex.atom.ok {
		if tag == ex.atom.tag {
			st.atomicAcq++
			if st.atomicAcq > 1 {
				ex.record(st, fmt.Sprintf("%s/atomic:once@%s", ex.rootName, c.site), "atomic", "false", "the operation's mutex is acquired a second time: the operation is split into several critical sections")
			}
		} else {
			ex.atomicRequire(st, "lock:"+tag, c.site)
		}
	}
	st.locks = append(append([]string(nil), st.locks...), tag+"@"+base)
	ex.onAcquire(st, tag, base)
	c.k(st, Val{K: KUnit})
}

func externUnlock(ex *Exec, st *State, c *callCtx) {
	tag, base, ok := lockIdent(c.args[0])
	if !ok {
		panic(subsetErr{"Unlock on a mutex that is not a struct field"})
	}
	// release the most recent matching entry (syntactic match on base term)
	idx := -1
	for i := len(st.locks) - 1; i >= 0; i-- {
		if st.locks[i] == tag+"@"+base {
			idx = i
			break
		}
	}
	if idx < 0 {
		ex.record(st, fmt.Sprintf("%s/unlock-unheld:%s@%s", ex.rootName, tag, c.site), "lockorder", "false", "unlock of a mutex that is not held")
		c.k(st, Val{K: KUnit})
		return
	}
	ex.onRelease(st, tag, base)
	nl := append([]string(nil), st.locks[:idx]...)
	nl = append(nl, st.locks[idx+1:]...)
	st.locks = nl
	c.k(st, Val{K: KUnit})
}

func (w *World) lockRank(tag string) int {
	for i, t := range w.lockOrder {
		if strings.Contains(tag, t) {
			return i
		}
	}
	return -1
}

// onAcquire / onRelease implement the lock-invariant rule in concurrency mode: acquiring a lock
// havocs the state it guards and assumes the lock invariant; releasing asserts it.
func (ex *Exec) onAcquire(st *State, tag, base string) {
	if !ex.mode.concurrency {
		return
	}
	li := ex.w.lockInvFor(tag)
	if li == nil {
		return
	}
	for _, r := range sortedKeys(ex.regSorts) {
		for _, pat := range li.regions {
			if matchRegion(pat, r) {
				st.havocRegion(r)
			}
		}
	}
	e := &env{vars: map[string]Val{"self": {K: KTerm, T: base, Typ: li.selfType}}}
	for _, c := range li.invs {
		st.assume(ex.evalBool(st, c.expr, e))
	}
}

func (ex *Exec) onRelease(st *State, tag, base string) {
	if !ex.mode.concurrency {
		return
	}
	li := ex.w.lockInvFor(tag)
	if li == nil {
		return
	}
	e := &env{vars: map[string]Val{"self": {K: KTerm, T: base, Typ: li.selfType}}}
	for _, c := range li.invs {
		g := ex.evalBool(st, c.expr, e)
		ex.record(st, fmt.Sprintf("%s/lockinv:%s:%s", ex.rootName, tag, c.label), "lockinv", g, c.src)
	}
}

type lockInv struct {
	tag      string
	regions  []string
	invs     []clause
	selfType types.Type
}

func (w *World) lockInvFor(tag string) *lockInv {
	for _, li := range w.lockInvs {
		if strings.Contains(tag, li.tag) {
			return li
		}
	}
	return nil
}

// ---- atomicity of public operations (C03) --------------------------------------------------------------
// Contract clause `atomic <mutexField> owns <Type>,...` on a method: the receiver's mutex is acquired exactly
// once, and every acquisition of another lock, every access to a guarded map and every access to a field of
// an owned type happens while it is held. Operations that satisfy this run entirely inside one critical
// section of one mutex and are therefore serialisable in lock-acquisition order.

type atomicSpec struct {
	tag, base string
	owns      []string
	ok        bool
}

func (ex *Exec) atomicInit(st *State) {
	ct := ex.contract
	if ct == nil || ct.atomic == "" || ex.atom != nil {
		return
	}
	fs := strings.Fields(ct.atomic)
	a := &atomicSpec{}
	ex.atom = a
	if len(ex.root.Params) == 0 {
		return
	}
	recv := ex.entryVals[ex.root.Params[0].Name()]
	rt := derefType(ex.root.Params[0].Type())
	if s, ok := rt.Underlying().(*types.Struct); ok {
		for i := 0; i < s.NumFields(); i++ {
			if s.Field(i).Name() == fs[0] {
				a.ok = true
			}
		}
	}
	a.tag, a.base = lockTag(rt, fs[0]), recv.T
	for i := 1; i < len(fs); i++ {
		if fs[i] == "owns" {
			continue
		}
		for _, t := range strings.Split(fs[i], ",") {
			if t != "" {
				a.owns = append(a.owns, t)
			}
		}
	}
	if !a.ok {
		ob := ex.obl(ex.rootName+"/atomic:lock-field", "structural")
		ob.VCs = append(ob.VCs, VC{goal: "false", note: "the operation is declared atomic under mutex field " + fs[0] + " but the receiver type has no such field: its accesses to shared state are spread over several critical sections of different locks"})
	}
}

func (ex *Exec) atomicRequire(st *State, what, site string) {
	if ex.atom == nil || !ex.atom.ok {
		return
	}
	ex.record(st, fmt.Sprintf("%s/atomic:%s@%s", ex.rootName, what, site), "atomic", st.heldGoal(ex.atom.tag, ex.atom.base), what+" outside the operation's critical section")
}

func (ex *Exec) atomicOwned(st *State, root types.Type, base string, site string) {
	if ex.atom == nil || !ex.atom.ok || root == nil {
		return
	}
	name := typeBaseName(root)
	for _, o := range ex.atom.owns {
		if o == name {
			if strings.HasPrefix(base, "new_") && st.knownNonNil(base) && !st.published[base] {
				return // not yet shared
			}
			ex.atomicRequire(st, "access-to-"+name, site)
		}
	}
}
