package main

// Which obligations constitute which property (DESIGN.md section 4).

var sshdHandlers = []string{
	"processNotInAllowUsersEntry", "userInDenyUsers", "userNotInAnyGroup", "userGroupInDenyGroups", "userGroupNotListedInAllowGroups",
	"userNonExistentShell", "userNonExecutableShell", "rootLoginRefused", "badOwnerOrModesForHostFile", "maxAuthAttemptsExceeded",
	"failedPasswordAuth", "nastyPTRRecord", "reverseMappingCheckFailed", "doesNotMapBackToAddr", "revokedPublicKeyByFile",
	"revokedPublicKeyByFileErr", "processInvalidUserEntry", "processCertificateInvalidEntry",
}
var sshdAccepted = []string{"processAcceptedPasswordEntry", "processAcceptPublicKeyEntry"}

const safetyRe = `^(bounds|nil|nilmap|panic|overflow|assert|divzero|nilfunc|pre:|vacuity|frame:|close-closed)`

func sshdUnits(handlerInc []string, acceptedInc []string, entryInc []string, sshdLogInc []string) []unit {
	var us []unit
	if handlerInc != nil {
		for _, h := range sshdHandlers {
			us = append(us, u("processors/sshd."+h, handlerInc...))
		}
	}
	if acceptedInc != nil {
		for _, h := range sshdAccepted {
			us = append(us, u("processors/sshd."+h, acceptedInc...))
		}
	}
	if entryInc != nil {
		us = append(us, u("processors/sshd.ProcessEntry", entryInc...))
	}
	if sshdLogInc != nil {
		us = append(us, u("processors/sshd.(*SshdProcessorer).ProcessSshdLogEntry", sshdLogInc...))
	}
	return us
}

func propDefs() map[string]propDef {
	m := map[string]propDef{}
	m["C11"] = propDef{ID: "C11", Level: "proof",
		Units: append(sshdUnits(
			[]string{safetyRe, `^ensures:(err|one|sub|kw|nosend|only)$`},
			[]string{safetyRe, `^ensures:(err|one|sub|sendone|send|only)$`},
			[]string{safetyRe, `^ensures:(err|one|sub|sendone|send|keyword|failnosend|outcome)$`},
			[]string{safetyRe, `^ensures:(err|one|sendone|send|keyword)$`}),
			u("processors/sshd.getCertificateInvalidReason"), u("processors/sshd.extraDataWithCA"), u("processors/sshd.extraDataWithoutCA"),
			u("processors/sshd.extraDataForInvalidCert")),
		Explain: "safety sweep (bounds, nil, nil-map, panic, overflow) of every function of processors/sshd for a fully symbolic (pid, line), plus the postconditions: no error unless the write failed, at most one event, at most one forwarded login and only with a succeeded event, an event only behind a recognised keyword, every subject/source value a substring of the line or a fixed placeholder",
	}
	m["C19"] = propDef{ID: "C19", Level: "proof",
		Units: append(sshdUnits(
			[]string{`^ensures:ctr`, `^pre:`},
			[]string{`^ensures:ctr`, `^pre:`},
			[]string{`^ensures:(ctr|ctrlabel|nokw|outcome)$`, `^pre:`},
			[]string{`^ensures:(ctr|nokw)$`, `^pre:`}),
			u("internal/metrics.(*PrometheusMetricsProvider).IncLogins")),
		Explain: "postconditions over the ghost counters ctr(method,outcome)/ctrsum: an emitted event implies exactly one increment in total, under a label matching the event's outcome and the message's method; a line without a recognised keyword changes no counter",
	}
	m["C05"] = propDef{ID: "C05", Level: "proof",
		Lemmas: []lemmaUnit{{Name: "sshd-formats", Args: []string{"C05"}}},
		Units: sshdUnits(
			[]string{`^ensures:(nosend|err)$`},
			[]string{`^ensures:(err|one|sendone|send|cancel|match|only|fields)$`, `^pre:`},
			[]string{`^ensures:(err|one|sendone|send|cancel|failnosend|outcome)$`, `^pre:`},
			[]string{`^ensures:(err|one|sendone|send|cancel)$`, `^pre:`}),
		Explain: "postconditions over the ghost traces out (events written) and sent(logins): write failure returns the error and forwards nothing; otherwise exactly one succeeded event is written and then either exactly one login is sent whose Source is the pointer that was written, whose PID is Atoi(pid) and whose CredUserID is the certificate key ID or 'unknown', stamped after the write, or the context was cancelled; failure handlers never send",
	}
	const st = "processors/auditd/sessiontracker."
	trk := func(rl, ae, wc, ta, du, dl []string) []unit {
		var us []unit
		add := func(fn string, inc []string) {
			if inc != nil {
				us = append(us, u(st+fn, inc...))
			}
		}
		add("(*sessionTracker).RemoteLogin", rl)
		add("(*sessionTracker).AuditdEvent", ae)
		add("(*user).writeAndClearCache", wc)
		add("(*user).toAuditEvent", ta)
		add("(*sessionTracker).DeleteUsersWithoutLoginsBefore", du)
		add("(*sessionTracker).DeleteRemoteUserLoginsBefore", dl)
		return us
	}
	all := []string{}
	syncmap := []unit{u("internal/common.(*GenericSyncMap).Load"), u("internal/common.(*GenericSyncMap).Has"), u("internal/common.(*GenericSyncMap).Store"),
		u("internal/common.(*GenericSyncMap).Delete"), u("internal/common.(*GenericSyncMap).DeleteUnsafe"), u("internal/common.(*GenericSyncMap).Len"),
		u("internal/common.(RemoteUserLogin).Validate")}
	// C01 and C02 prove the whole invariant (including the disposal clause that C09 is about): it is inductive only as a whole
	noDisp := func(us []unit) []unit { return us }
	m["C01"] = propDef{ID: "C01", Level: "proof",
		Units: append(noDisp(trk(
			[]string{`^ensures:(c01|inv|prefix|invalid|err)`, `^inv-`, `^pre:`, safetyRe},
			[]string{`^ensures:(c01|inv|prefix|openbound|emit)`, `^assert_at:`, `^pre:`, safetyRe},
			[]string{`^ensures:(okall|errall|prefix)`, `^assert_at:`, `^inv-`, `^pre:`, safetyRe},
			all,
			[]string{`^ensures:(inv|frame)`, `^inv-`},
			[]string{`^ensures:(inv|frame)`, `^inv-`})), append(syncmap,
			// the PID a login is correlated by is the PID field of its syslog record (delivery link, C07's PID clause)
			u("ingesters/syslog.(*SyslogIngester).ParseSyslogMessage", `^ensures:pipe`, safetyRe))...),
		Assume: []string{"history assumption of the property: each sshd PID logs in once and PIDs/session IDs are not reused inside the history (reuse is C09); the invariant itself is proved without it",
			"event.Process.PID is the PID the kernel logged (go-libaudit aucoalesce, dependency)"},
		Explain: "data-structure invariant TrackerInv (bound login has the session's PID, parked login is filed under its PID, srcPID equals the PID of the LOGIN record that opened the session (ghost g_opened), users distinct) proved inductive over the four public operations from an arbitrary invariant-satisfying state — hence for every history, any number of sessions and PIDs, any placement of cleanup; every written event is asserted at its write site to render the audit event with the identity of the session's own login (ghost provenance out[i].by / out[i].src); postconditions: every event appended by RemoteLogin carries rul's identity and g_opened[auditId] == rul.PID, every event appended by AuditdEvent carries the identity of the login bound to event.Session whose PID equals g_opened[event.Session]",
	}
	m["C02"] = propDef{ID: "C02", Level: "proof",
		Units: append(noDisp(trk(
			[]string{`^ensures:(bind|park|inv|prefix|err)`, `^inv-`, `^pre:`},
			[]string{`^ensures:(open|openbound|held|emit|inv|prefix|err)`, `^pre:`},
			[]string{`^ensures:`, `^inv-`, `^pre:`, `^frame:`},
			nil, []string{`^ensures:(dom|val|frame)`, `^inv-`}, []string{`^ensures:(frame)`})),
			u("processors/auditd.(*Auditd).Read", `^assert_at:.*cutoff`)),
		Assume:  []string{"EventWriter.Write appends exactly one event or fails without effect (assumed contract)"},
		Explain: "per-operation whole-view postconditions over the ghost trace out with provenance: an event for an unbound session is appended to the held queue (queue' == queue ++ [e], nothing emitted); for a bound session exactly [render(e)] is emitted; RemoteLogin binding a session emits render(queue) in order (out[N+k].src == queue[k]) and empties the queue; a LOGIN record meeting a parked login emits exactly its own rendering; the invariant 'bound => queue empty' makes these compose, by induction over operations, to 'every event from the LOGIN record to the credential-disposal record emitted exactly once, in processing order'; writeAndClearCache's loop invariant carries the in-order claim for any queue length and the write-failure-at-index-i case",
	}
	m["C04"] = propDef{ID: "C04", Level: "proof",
		Units: trk(
			[]string{`^ensures:(c01|invalid|park)`},
			[]string{`^ensures:(nosess|untracked|badpid|held|open|c01|emit)`, `^pre:`},
			nil, nil,
			[]string{`^ensures:frame`}, []string{`^ensures:frame`}),
		Assume:  []string{"the kernel's unset session 4294967295 reaches the tracker as the string \"unset\" (auparse, dependency)"},
		Explain: "postconditions that hold after every single operation (hence at every prefix of every history): no session ID / 'unset' => nothing emitted and nothing modified; unknown session and not a LOGIN record => same; known but uncorrelated session => nothing emitted (event held); LOGIN without a parked login => nothing emitted; every emitted event has auditId == the processed event's session and the identity of that session's bound login; cleanup emits nothing",
	}
	m["C09"] = propDef{ID: "C09", Level: "proof",
		Units: trk(
			[]string{`^ensures:inv:TrackerInv.*UserOK\.1\.2(\.|:|$)`, `^ensures:(bind|bindkeep|c01)`, `^inv-`},
			[]string{`^ensures:inv:TrackerInv.*UserOK\.1\.2(\.|:|$)`, `^ensures:(emit|untracked|open)`},
			nil, nil,
			[]string{`^ensures:inv:TrackerInv.*UserOK\.1\.2(\.|:|$)`}, []string{`^ensures:inv:TrackerInv.*UserOK\.1\.2(\.|:|$)`}),
		Explain: "invariant clause I7: a tracked session whose credential-disposal record has been processed (ghost g_disp, set when the record is processed, reset when a LOGIN record opens a new incarnation of the ID) is never bound — i.e. once the disposal record has been emitted (directly, or released from the hold queue by a late login) the session has left the table, so no later login can be bound to it and a reused PID binds to the next session opened by it; AuditdEvent's postcondition: CRED_DISP on a bound session <=> the session is removed",
	}
	m["C03"] = propDef{ID: "C03", Level: "proof",
		Units: append(trk(
			[]string{`^atomic:`, `^guard:`, `^lockorder:`, `^unlock-unheld`, `^ensures:inv`},
			[]string{`^atomic:`, `^guard:`, `^lockorder:`, `^unlock-unheld`, `^ensures:inv`},
			nil, nil,
			[]string{`^atomic:`, `^guard:`, `^lockorder:`, `^unlock-unheld`, `^ensures:inv`},
			[]string{`^atomic:`, `^guard:`, `^lockorder:`, `^unlock-unheld`, `^ensures:inv`}),
			u("internal/common.(*GenericSyncMap).Load", `^guard:`, `^lockorder:`), u("internal/common.(*GenericSyncMap).Has", `^guard:`, `^lockorder:`),
			u("internal/common.(*GenericSyncMap).Store", `^guard:`, `^lockorder:`), u("internal/common.(*GenericSyncMap).Delete", `^guard:`, `^lockorder:`),
			u("internal/common.(*GenericSyncMap).DeleteUnsafe", `^guard:`, `^lockorder:`), u("internal/common.(*GenericSyncMap).Len", `^guard:`, `^lockorder:`)),
		Assume: []string{"sync.Mutex provides mutual exclusion and happens-before (Go memory model)",
			"meta-argument (not mechanised, textbook): operations that run entirely inside one critical section of one mutex are serialisable in lock-acquisition order; together with the sequential proofs of C01/C02/C04/C09 (each operation proved from an arbitrary invariant-satisfying state) every concurrent execution produces what some sequential order produces",
			"data races outside tracker state (e.g. inside the shared json.Encoder of the EventWriter) are not covered"},
		Explain: "lock-discipline obligations generated by the same symbolic execution: (atomic) each of the four public operations acquires the tracker's mutex exactly once and every acquisition of a map lock, every access to a guarded map and every access to a field of a user object happens while it is held; (guard) every access to GenericSyncMap.m holds that map's mtx; (lockorder) no lock is acquired while already held (the callbacks never re-enter their map), nothing is held at return; plus the invariant proofs as lock invariant of the tracker mutex",
	}
	hu := func(fn string) unit { return unit{Fn: "internal/health." + fn, Conc: true} }
	m["C18"] = propDef{ID: "C18", Level: "proof",
		Units: []unit{hu("NewHealth"), hu("(*Health).AddReadiness"), hu("(*Health).OnReady"), hu("(*Health).IsReady"), hu("(*Health).GetReadyzStatusMap"),
			hu("(*Health).readyzHandler"), hu("(*Health).WaitForReady"), hu("(*Health).WaitForReady$1"),
			{Fn: "internal/common.(*GenericSyncMap).Store", Include: []string{`^ensures:`, `^guard:`, `^lockorder:`}}, {Fn: "internal/common.(*GenericSyncMap).Len", Include: []string{`^ensures:`, `^guard:`, `^lockorder:`}}},
		Assume: []string{"no component is registered under the name 'overall' (the status map reuses that key)",
			"http.ResponseWriter.WriteHeader / json.Encoder.Encode contracts (ghost status code / encoded value)",
			"concurrency: the registry map is havocked at every acquisition of its lock (any interleaving of lock-respecting goroutines); sync.Mutex semantics assumed",
			"observation O2 (DESIGN.md 5): cmd/namedpipe.go registers the component name 'named-pipe-processor' twice, so one OnReady satisfies both registrations; C18 is phrased over names and holds"},
		Explain: "contracts over the registry view, verified in lock-invariant mode (the map's contents are havocked each time its lock is acquired; postconditions refer to atlock(m), the contents at the acquisition = linearisation point): AddReadiness/OnReady set exactly their key; IsReady == all registered are ready; GetReadyzStatusMap returns a fresh map whose per-component statuses and 'overall' are computed from ONE snapshot (the Iterate critical section; the earlier Len() only sizes the map), overall ok iff all ready; readyzHandler writes 200 iff that snapshot is all-ready, else 503, and encodes the same map; the WaitForReady goroutine closes the channel only right after IsReady returned true and sends only on the cancellation arm",
	}
	m["C12"] = propDef{ID: "C12", Level: "proof",
		Units: []unit{u("ingesters/namedpipe.(*NamedPipeIngester).Ingest")},
		Assume: []string{bufioDoc, "independence of how the writer chunks its bytes is carried by that assumed bufio contract (stated over the byte stream, not over read calls); what is proved is that Ingest adds no framing error of its own",
			"the goroutine that opens the FIFO is joined at the receive from the channel it closes (its writes to file/err are visible there: Go memory model)"},
		Explain: "loop invariant of Ingest's read loop over the assumed contract of bufio.Reader.ReadString: the callbacks made so far are exactly the records returned so far, in order, each with exactly the record's bytes (cb[i].line == rdstream(r, i)), the same context and callback value, and all returned nil; exits only by returning the reader's error (so never nil, end-of-stream surfaces as an error, the unterminated tail is never delivered because the error check precedes the callback) or the first non-nil callback error unchanged (identity), after which no callback is made",
	}
	m["C15"] = propDef{ID: "C15", Level: "proof",
		Units: []unit{u("processors/auditd.parseAuditLogs"), u("processors/auditd.(*reassemblerCB).ReassemblyComplete"),
			u("processors/auditd.(*Auditd).Read", `^ensures:`, `^selects:`, `^pre:`, `^inv-`, `^chaninv:`, safetyRe), u("processors/auditd.(*Auditd).Read$1"),
			u("processors/auditd/sessiontracker.(*sessionTracker).RemoteLogin", `^ensures:(err|werr|invalid|inv)`, `^inv-`), u("processors/auditd/sessiontracker.(*sessionTracker).AuditdEvent", `^ensures:(err|werr|badpid|inv)`)},
		Assume: []string{"grouping of interleaved records into one event happens inside go-libaudit's Reassembler (dependency, not decided)",
			"that select eventually takes a ready error arm is fairness of the Go runtime (not decided)",
			"the message text of parseAuditLogsError is built with fmt.Sprintf (opaque here): that it contains the line is not proved, that the error wraps the parser's error and that the offending line is the last one received is"},
		Explain: "loop invariant of parseAuditLogs over ghost traces of received lines and pushed messages: every non-empty line received so far has been parsed and pushed exactly once (a bijection between pushes and non-empty lines), in order, and the function ends only on cancellation or with a parseAuditLogsError wrapping the parser's error for the last received line; ReassemblyComplete hands the coalesced event to the correlator exactly once unless coalescing fails or the event predates the threshold, and if coalescing or the correlator fails the 1-slot error channel is non-empty afterwards (the non-blocking send cannot lose the first error); Read has receive arms for the parser's result, the reassembler's errors and the logins, returns a non-nil error on each failure arm (a RemoteLogin error cannot be skipped: the loop invariant TrackerInv is only re-established when it returns nil), and every error sent on the internal channels is non-nil (channel message invariant checked at each send)",
	}
	blk := []string{`^blocks:`}
	m["C13"] = propDef{ID: "C13", Level: "other",
		Units: []unit{u("ingesters/namedpipe.(*NamedPipeIngester).Ingest", `^blocks:`, `^ensures:(stop|noread)`), u("ingesters/auditlog.(*AuditLogIngester).Process", append(blk, `^ensures:`)...),
			u("ingesters/auditlog.(*AuditLogIngester).Ingest", blk...), u("ingesters/syslog.(*SyslogIngester).Ingest", blk...), u("ingesters/syslog.(*SyslogIngester).Process", blk...),
			u("processors/sshd.(*SshdProcessorer).ProcessSshdLogEntry", append(blk, `^ensures:cancel`, `^pre:ProcessEntry`)...), u("processors/sshd.ProcessEntry", blk...),
			u("processors/auditd.(*reassemblerCB).ReassemblyComplete", blk...),
			u("processors/sshd.processAcceptPublicKeyEntry", append(blk, `^ensures:cancel`)...), u("processors/sshd.processAcceptedPasswordEntry", append(blk, `^ensures:cancel`)...),
			u("processors/auditd.(*Auditd).Read", blk...), u("processors/auditd.parseAuditLogs", blk...), u("processors/auditd.maintainReassemblerLoop", blk...),
			u(st+"(*sessionTracker).RemoteLogin", blk...), u(st+"(*sessionTracker).AuditdEvent", blk...), u(st+"(*sessionTracker).DeleteUsersWithoutLoginsBefore", blk...), u(st+"(*sessionTracker).DeleteRemoteUserLoginsBefore", blk...)},
		Assume: []string{"closing the FIFO from the goroutine that waits on ctx.Done() makes the blocked ReadString return (OS behaviour)", "os.OpenFile on a FIFO without a writer is abandoned (the select returns on ctx.Done()), not interrupted",
			"bounded time itself, scheduling and the Go runtime are not decided: what is proved is that no worker can sit in a blocking operation that cancellation cannot end"},
		Explain: "blocking-effect obligations decided structurally on the symbolic execution of every worker: each potentially blocking operation (channel send/receive, select without default, call to a function that may block) is a select with a <-ctx.Done() arm, a send on a channel made by the function with provable room (SMT obligation), a call to a callee verified cancellable, or one of the two declared external blocking calls with their wake-up mechanism (os.OpenFile abandoned via the ready select, ReadString ended by file.Close from the ctx.Done goroutine); plus 'no callback after the loop has ended'",
	}
	const dr = "processors/auditd/dirreader."
	m["C20"] = propDef{ID: "C20", Level: "proof",
		Units: []unit{u(dr + "sortLogNamesOldToNew"), u(dr + "readLines"), u(dr + "readFilePathLines"), u(dr + "(*rotatingFile).read"), u(dr + "(*rotatingFile).setOffset"),
			u(dr + "(*rotatingFile).incOffsetBy"), u(dr + "(*rotatingFile).getOffset"),
			u(dr + "(*LogDirReader).loopWithError"), u(dr + "(*LogDirReader).loopWithError$2"), u(dr + "(*rotatingFile).readWithRetry")},
		Assume: []string{bufioDoc, "sort.Slice sorts in place with respect to the caller's less closure (assumed contract, evaluated symbolically on the closure body)",
			"file names with the prefix audit.log in the directory are audit.log or audit.log.N with N >= 1 in canonical decimal",
			"backoff.Retry (dependency) only runs the operation it is given: assumed frame of rotatingFile.boFn",
			"goroutine model for loopWithError: each initial-file reader goroutine is represented by its contract (sends exactly one completion message); tokens(ch) = queued messages + readers still to send; a receive on the token-tracked channel completes only if tokens >= 1 (all producers are visible: structural obligation tokens:initFileDone:tracked); fsnotify event delivery and the OS are not decided"},
		Explain: "sortLogNamesOldToNew: the result contains exactly the kept directory entries and is ordered by age (audit.log.N before audit.log.M for N > M, the live log last) — for any number of files; readLines: loop invariant over the assumed bufio contract: the lines sent are exactly the complete records without their newline, in order, and the byte count is the sum of the complete records (the unterminated tail is neither delivered nor counted); loopWithError: loop invariant tokens(initFileDone) == (initial phase ? 1 : 0) — hence never two initial readers at once; reader k is started for initFileNames[k] (k = number started so far) only when no reader is outstanding; the live tail (readWithRetry) and close(initFilesDone) happen only when all initial files have been started and none is outstanding; the offset of the live log is set from the byte count of its initial read; rotatingFile.read: create/remove/rename reset the offset, other events leave everything unchanged, a write event delivers the complete lines after the offset and advances it by whole lines only",
	}
	m["C08"] = propDef{ID: "C08", Level: "other",
		Units: []unit{u("internal/common.IsNamedPipe"), u("cmd.RunNamedPipe$3"), u("cmd.RunNamedPipe$4"), u("cmd.RunNamedPipe$5"), u("main.main"), u("main.mainWithError"),
			u("ingesters/namedpipe.(*NamedPipeIngester).Ingest", `^ensures:(nonnil|cberr|rderr)`, `^blocks:`), u("ingesters/auditlog.(*AuditLogIngester).Ingest", `^ensures:`, `^blocks:`, `^pre:`),
			u("ingesters/syslog.(*SyslogIngester).Ingest", `^ensures:`, `^blocks:`, `^pre:`), u("ingesters/auditlog.(*AuditLogIngester).Process", `^blocks:`, `^ensures:`),
			// the callbacks handed to the pipe ingesters: a failure inside them (event write) must come back as an error
			// (the sshd chain below Process is pulled in by the dependency closure, whole contracts, incl. the werr clauses)
			u("ingesters/syslog.(*SyslogIngester).Process", `^ensures:`, `^blocks:`),
			u(st+"(*sessionTracker).RemoteLogin", `^ensures:(werr|err|invalid)`), u(st+"(*sessionTracker).AuditdEvent", `^ensures:(werr|err|badpid)`),
			u("processors/auditd.(*reassemblerCB).ReassemblyComplete", `^ensures:`, `^blocks:`),
			u("processors/auditd.(*Auditd).Read", `^ensures:nonnil`, `^blocks:`, `^selects:`, `^assert_at:NewReassembler`), u("processors/auditd.parseAuditLogs", `^ensures:(nonnil|cause)`, `^blocks:`)},
		Structural: []string{"runnamedpipe-wiring"},
		Assume: []string{"errgroup semantics: the first non-nil worker error cancels the group context and is returned by Wait (dependency)",
			"signal.NotifyContext cancels on SIGTERM/SIGINT; process exit status after log.Fatalln; delivery of signals (OS)",
			"that cancellable workers return within a BOUNDED TIME and behaviour under sustained load are timing properties and are not decided; the structural fact that no worker can block uncancellably is C13",
			"cmd.RunNamedPipe itself is not symbolically executed (flag parsing, logger construction): its contract only names its result; its wiring is checked structurally on the SSA"},
		Explain: "error-propagation chain, function by function: IsNamedPipe returns nil iff the stat succeeded and the mode has ModeNamedPipe (32-bit vector obligation) and returns the stat error unchanged; each of the three pipeline workers only ever returns a non-nil error (Ingest never returns nil, Read never returns nil, a failed IsNamedPipe is wrapped); read off the SSA of RunNamedPipe: one errgroup derived from the ctx parameter, every context argument inside every worker is the group's context, Wait's error is returned; mainWithError passes the signal context and returns RunNamedPipe's result; main calls log.Fatalln exactly when that result is non-nil; plus the C13 obligations of the workers",
	}
	m["C10"] = propDef{ID: "C10", Level: "other",
		Units: append(append(sshdUnits(nil, []string{`^chaninv:`, `^ensures:send`}, []string{`^ensures:send`}, []string{`^ensures:send`}),
			trk([]string{`^ensures:(causal|c01)`}, []string{`^ensures:(causal|c01)`}, nil, nil, []string{`^ensures:causal`}, []string{`^ensures:causal`})...),
			u("processors/auditd/sessiontracker.NewSessionTracker", `^ensures:causal`), u("processors/auditd.(*Auditd).Read", `^inv-.*causal`, `^pre:`)),
		Structural: []string{"runnamedpipe-wiring"},
		Assume: []string{"that one EventWriter.Write call produces one complete, untorn line when two goroutines share a json.Encoder over an O_APPEND file is library and OS behaviour: NOT decided (the 'whole JSON events' half of the property is not claimed)",
			"the channel message invariant is assumed at the receive in Read and checked at every send"},
		Explain: "causal-order half only: channel message invariant of the logins channel 'the login's event has already been written' (ghost writtenat, stable because out only grows) is proved at every send (the hand-off comes after the successful Write of the same event object) and assumed at the receive; the tracker preserves 'every login it holds has been written' (Causal) in all four operations and every UserAction it appends sits after the UserLogin event whose identity it carries (writtenat(out[i].by) <= i); one Write per emitted event (C02/C06); read off RunNamedPipe: one EventWriter shared by both processors, one logins channel",
	}
	m["C14"] = propDef{ID: "C14", Level: "proof",
		Units: append(trk(
			nil,
			[]string{`^assert_at:`},
			[]string{`^assert_at:`},
			all, nil, nil),
			// the record group is coalesced as received and the coalesced event is what the tracker is handed
			u("processors/auditd.(*reassemblerCB).ReassemblyComplete", `^ensures:(once|handed|skipped)`, `^assert_at:`)),
		Assume:  []string{"what aucoalesce puts into Result/Summary for a record group (dependency)"},
		Explain: "postcondition of the real toAuditEvent: type UserAction, component auditd, timestamp == the audit event's, auditId == its session, outcome succeeded iff Result == success, metadata action/how/object from the summary, process_args present iff the event has arguments, subjects a fresh copy equal to the login's (loop invariant of the copy loop), source and target the login's; frame: nothing reachable from the login or the audit event is modified; the same relation is asserted at every EventWriter.Write of the package; ReassemblyComplete: the record group is passed to aucoalesce.CoalesceMessages exactly as received (same length, same records in the same order — asserted at the call), and the event handed to the tracker is the coalesced event itself unless it predates the start time",
	}
	m["C16"] = propDef{ID: "C16", Level: "proof",
		Units: append(trk([]string{`^ensures:agekept`}, []string{`^ensures:(added|open|agekept)`}, nil, nil, all, all),
			u("processors/auditd.(*Auditd).Read", `^assert_at:`, `^inv-`, `^pre:`, `^selects:staleDataTicker`)),
		Assume: []string{"time.Time.Before is a strict order on instants (assumed contract)", "the ticker of Auditd.Read fires about once per staleDataCleanupInterval (real time, not decided)"},
		// Read: both cleanups are called on the ticker arm with cut-off == now - 1 minute, and the ticker period is the same constant
		Explain: "whole-view postconditions of both cleanup operations, proved with deletion during map iteration: the surviving keys are exactly the previous keys that are correlated or not older than the cut-off (sessions), resp. whose login is not older than the cut-off (parked logins); surviving values, all user fields, the other map and the output are unchanged; TrackerInv is preserved",
	}
	m["C06"] = propDef{ID: "C06", Level: "proof",
		Lemmas: []lemmaUnit{{Name: "sshd-formats", Args: []string{"C06"}}},
		Units: append(sshdUnits(
			[]string{`^ensures:(fields|match|only|one|err)$`, `^pre:`},
			[]string{`^ensures:(fields|certdata|match|only|one|err)$`, `^pre:`},
			[]string{`^ensures:(event|outcome|one)$`, `^pre:`},
			[]string{`^ensures:(event|one)$`, `^pre:`, `^frame:`}),
			// delivery link (as in C17): the message reaches the processor with its internal spacing intact
			u("ingesters/syslog.(*SyslogIngester).ParseSyslogMessage", `^ensures:pipe`, safetyRe), u("ingesters/syslog.(*SyslogIngester).Process", `^ensures:(direct|once)`)),
		Explain: "(i) code-level postconditions of every handler: on a match exactly one event whose fields equal named capture groups / constants, outcome, component, PID, node name, machine ID, timestamp; (ii) the dispatch table read from ProcessEntry/userTypeLogAuditFn; (iii) per message format of the oracle specs/sshd_formats.json, regular-language lemmas over the regexp contracts derived from the current pattern literals: every printed line reaches its handler, matches its pattern, and group k is exactly field k",
	}
	m["C07"] = propDef{ID: "C07", Level: "proof",
		Units: []unit{u("ingesters/syslog.(*SyslogIngester).ParseSyslogMessage"), u("ingesters/syslog.(*SyslogIngester).Process"),
			u("processors/sshd.(*SshdProcessorer).ProcessSshdLogEntry", `^ensures:traced$`),
			u("ingesters/namedpipe.(*NamedPipeIngester).Ingest", `^ensures:(records|count)`, `^inv-(init|step):Ingest#1:(records|count)`),
			u("ingesters/auditlog.(*AuditLogIngester).Process", `^ensures:(forward|nil)$`, safetyRe)},
		Assume: []string{"auparse.ParseLogLine ignores trailing white space (dependency behaviour: Parse calls strings.TrimSpace) — assumed, not verified",
			"rsyslog writes '<pid> <message>\\n' records as configured in contrib/rsyslog (configuration, not code)"},
		Explain: "postcondition of the real ParseSyslogMessage for every record '<pid><one or more spaces><message>\\n' (pid without spaces, message not starting with a space): PID == pid and Message == message, i.e. the terminator is stripped, padding ignored, internal spacing preserved; the FIFO level is Ingest's record contract (each callback receives exactly one delimiter-terminated record, C12); Process hands exactly that value, once, to ProcessSshdLogEntry (ghost call record verified in the callee) with the same context; the audit ingester forwards the line unchanged to the channel",
	}
	m["C17"] = propDef{ID: "C17", Level: "proof",
		Lemmas: []lemmaUnit{{Name: "sshd-formats", Args: []string{"C17"}}},
		Units: []unit{u("processors/sshd.processInvalidUserEntry", `^ensures:(fields|match|only)$`), u("processors/sshd.failedPasswordAuth", `^ensures:(fields|match|only)$`),
			u("processors/sshd.maxAuthAttemptsExceeded", `^ensures:(fields|match|only)$`),
			// delivery link: the line reaches the sshd processor with the user name's bytes intact (C07's message clause)
			u("ingesters/syslog.(*SyslogIngester).ParseSyslogMessage", `^ensures:pipe`, safetyRe), u("ingesters/syslog.(*SyslogIngester).Process", `^ensures:(direct|once)`)},
		Explain: "regular-language lemmas over the regexp contracts derived from the pattern literals of the current tree: for every user name in [^\\n]* every printed line of the three forms is routed to its handler, matches its pattern, and the Source and Port groups are exactly the printed address and port; composed with the handlers' verified postconditions (event fields == capture groups)",
	}
	return m
}

func (w *World) runLemma(lu lemmaUnit, opts solveOpts, thorough bool) ([]*Obligation, []string) {
	switch lu.Name {
	case "sshd-formats":
		qs, notes := w.sshdLemmas(lu.Args[0])
		return solveLemmas(qs, opts), notes
	}
	return []*Obligation{{Name: "lemma/" + lu.Name, Kind: "subset", Status: "failed", Solver: "structural", Detail: "unknown lemma generator"}}, nil
}
