package main

// Which obligations constitute which property (DESIGN.md section 4).

var sshdHandlers = []string{
	"processNotInAllowUsersEntry", "userInDenyUsers", "userNotInAnyGroup", "userGroupInDenyGroups", "userGroupNotListedInAllowGroups",
	"userNonExistentShell", "userNonExecutableShell", "rootLoginRefused", "badOwnerOrModesForHostFile", "maxAuthAttemptsExceeded",
	"failedPasswordAuth", "nastyPTRRecord", "reverseMappingCheckFailed", "doesNotMapBackToAddr", "revokedPublicKeyByFile",
	"revokedPublicKeyByFileErr", "processInvalidUserEntry", "processCertificateInvalidEntry",
}
var sshdAccepted = []string{"processAcceptedPasswordEntry", "processAcceptPublicKeyEntry"}

const safetyRe = `^(bounds|nil|nilmap|panic|overflow|assert|divzero|nilfunc|pre:|vacuity|frame:|close-closed)`

func sshdUnits(handlerInc []string, acceptedInc []string, entryInc []string, sshdLogInc []string) []unit {
	var us []unit
	for _, h := range sshdHandlers {
		us = append(us, u("processors/sshd."+h, handlerInc...))
	}
	for _, h := range sshdAccepted {
		us = append(us, u("processors/sshd."+h, acceptedInc...))
	}
	us = append(us, u("processors/sshd.ProcessEntry", entryInc...))
	us = append(us, u("processors/sshd.(*SshdProcessorer).ProcessSshdLogEntry", sshdLogInc...))
	return us
}

func propDefs() map[string]propDef {
	m := map[string]propDef{}
	m["C11"] = propDef{ID: "C11", Level: "proof",
		Units: append(sshdUnits(
			[]string{safetyRe, `^ensures:(err|one|sub|kw|nosend|only)$`},
			[]string{safetyRe, `^ensures:(err|one|sub|sendone|send|only)$`},
			[]string{safetyRe, `^ensures:(err|one|sub|sendone|send|keyword|failnosend|outcome)$`},
			[]string{safetyRe, `^ensures:(err|one|sendone|send|keyword)$`}),
			u("processors/sshd.getCertificateInvalidReason"), u("processors/sshd.extraDataWithCA"), u("processors/sshd.extraDataWithoutCA"),
			u("processors/sshd.extraDataForInvalidCert")),
		Explain: "safety sweep (bounds, nil, nil-map, panic, overflow) of every function of processors/sshd for a fully symbolic (pid, line), plus the postconditions: no error unless the write failed, at most one event, at most one forwarded login and only with a succeeded event, an event only behind a recognised keyword, every subject/source value a substring of the line or a fixed placeholder",
	}
	m["C19"] = propDef{ID: "C19", Level: "proof",
		Units: append(sshdUnits(
			[]string{`^ensures:ctr`, `^pre:`},
			[]string{`^ensures:ctr`, `^pre:`},
			[]string{`^ensures:(ctr|ctrlabel|nokw|outcome)$`, `^pre:`},
			[]string{`^ensures:(ctr|nokw)$`, `^pre:`}),
			u("internal/metrics.(*PrometheusMetricsProvider).IncLogins")),
		Explain: "postconditions over the ghost counters ctr(method,outcome)/ctrsum: an emitted event implies exactly one increment in total, under a label matching the event's outcome and the message's method; a line without a recognised keyword changes no counter",
	}
	m["C05"] = propDef{ID: "C05", Level: "proof",
		Units: sshdUnits(
			[]string{`^ensures:(nosend|err)$`},
			[]string{`^ensures:(err|one|sendone|send|cancel|match|only|fields)$`, `^pre:`},
			[]string{`^ensures:(err|one|sendone|send|cancel|failnosend|outcome)$`, `^pre:`},
			[]string{`^ensures:(err|one|sendone|send|cancel)$`, `^pre:`}),
		Explain: "postconditions over the ghost traces out (events written) and sent(logins): write failure returns the error and forwards nothing; otherwise exactly one succeeded event is written and then either exactly one login is sent whose Source is the pointer that was written, whose PID is Atoi(pid) and whose CredUserID is the certificate key ID or 'unknown', stamped after the write, or the context was cancelled; failure handlers never send",
	}
	m["C06"] = propDef{ID: "C06", Level: "proof",
		Lemmas: []lemmaUnit{{Name: "sshd-formats", Args: []string{"C06"}}},
		Units: sshdUnits(
			[]string{`^ensures:(fields|match|only|one|err)$`, `^pre:`},
			[]string{`^ensures:(fields|certdata|match|only|one|err)$`, `^pre:`},
			[]string{`^ensures:(event|outcome|one)$`, `^pre:`},
			[]string{`^ensures:(event|one)$`, `^pre:`}),
		Explain: "(i) code-level postconditions of every handler: on a match exactly one event whose fields equal named capture groups / constants, outcome, component, PID, node name, machine ID, timestamp; (ii) the dispatch table read from ProcessEntry/userTypeLogAuditFn; (iii) per message format of the oracle specs/sshd_formats.json, regular-language lemmas over the regexp contracts derived from the current pattern literals: every printed line reaches its handler, matches its pattern, and group k is exactly field k",
	}
	m["C07"] = propDef{ID: "C07", Level: "proof",
		Units: []unit{u("ingesters/syslog.(*SyslogIngester).ParseSyslogMessage"), u("ingesters/syslog.(*SyslogIngester).Process"),
			u("processors/sshd.(*SshdProcessorer).ProcessSshdLogEntry", `^ensures:traced$`),
			u("ingesters/auditlog.(*AuditLogIngester).Process", `^ensures:(forward|nil)$`, safetyRe)},
		Assume: []string{"auparse.ParseLogLine ignores trailing white space (dependency behaviour: Parse calls strings.TrimSpace) — assumed, not verified",
			"rsyslog writes '<pid> <message>\\n' records as configured in contrib/rsyslog (configuration, not code)"},
		Explain: "postcondition of the real ParseSyslogMessage for every record '<pid><one or more spaces><message>\\n' (pid without spaces, message not starting with a space): PID == pid and Message == message, i.e. the terminator is stripped, padding ignored, internal spacing preserved; Process hands exactly that value, once, to ProcessSshdLogEntry (ghost call record verified in the callee) with the same context; the audit ingester forwards the line unchanged to the channel",
	}
	m["C17"] = propDef{ID: "C17", Level: "proof",
		Lemmas: []lemmaUnit{{Name: "sshd-formats", Args: []string{"C17"}}},
		Units: []unit{u("processors/sshd.processInvalidUserEntry", `^ensures:(fields|match|only)$`), u("processors/sshd.failedPasswordAuth", `^ensures:(fields|match|only)$`),
			u("processors/sshd.maxAuthAttemptsExceeded", `^ensures:(fields|match|only)$`)},
		Explain: "regular-language lemmas over the regexp contracts derived from the pattern literals of the current tree: for every user name in [^\\n]* every printed line of the three forms is routed to its handler, matches its pattern, and the Source and Port groups are exactly the printed address and port; composed with the handlers' verified postconditions (event fields == capture groups)",
	}
	return m
}

func (w *World) runLemma(lu lemmaUnit, opts solveOpts, thorough bool) ([]*Obligation, []string) {
	switch lu.Name {
	case "sshd-formats":
		qs, notes := w.sshdLemmas(lu.Args[0])
		return solveLemmas(qs, opts), notes
	}
	return []*Obligation{{Name: "lemma/" + lu.Name, Kind: "subset", Status: "failed", Solver: "structural", Detail: "unknown lemma generator"}}, nil
}

func (w *World) runStructural(name string) []*Obligation { return nil }

