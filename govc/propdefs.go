package main

// Which obligations constitute which property (DESIGN.md section 4).

var sshdHandlers = []string{
	"processNotInAllowUsersEntry", "userInDenyUsers", "userNotInAnyGroup", "userGroupInDenyGroups", "userGroupNotListedInAllowGroups",
	"userNonExistentShell", "userNonExecutableShell", "rootLoginRefused", "badOwnerOrModesForHostFile", "maxAuthAttemptsExceeded",
	"failedPasswordAuth", "nastyPTRRecord", "reverseMappingCheckFailed", "doesNotMapBackToAddr", "revokedPublicKeyByFile",
	"revokedPublicKeyByFileErr", "processInvalidUserEntry", "processCertificateInvalidEntry",
}
var sshdAccepted = []string{"processAcceptedPasswordEntry", "processAcceptPublicKeyEntry"}

const safetyRe = `^(bounds|nil|nilmap|panic|overflow|assert|divzero|nilfunc|pre:|vacuity|frame:|close-closed)`

func sshdUnits(handlerInc []string, acceptedInc []string, entryInc []string, sshdLogInc []string) []unit {
	var us []unit
	for _, h := range sshdHandlers {
		us = append(us, u("processors/sshd."+h, handlerInc...))
	}
	for _, h := range sshdAccepted {
		us = append(us, u("processors/sshd."+h, acceptedInc...))
	}
	us = append(us, u("processors/sshd.ProcessEntry", entryInc...))
	us = append(us, u("processors/sshd.(*SshdProcessorer).ProcessSshdLogEntry", sshdLogInc...))
	return us
}

func propDefs() map[string]propDef {
	m := map[string]propDef{}
	m["C11"] = propDef{ID: "C11", Level: "proof",
		Units: append(sshdUnits(
			[]string{safetyRe, `^ensures:(err|one|sub|kw|nosend|only)$`},
			[]string{safetyRe, `^ensures:(err|one|sub|sendone|send|only)$`},
			[]string{safetyRe, `^ensures:(err|one|sub|sendone|send|keyword|failnosend|outcome)$`},
			[]string{safetyRe, `^ensures:(err|one|sendone|send|keyword)$`}),
			u("processors/sshd.getCertificateInvalidReason"), u("processors/sshd.extraDataWithCA"), u("processors/sshd.extraDataWithoutCA"),
			u("processors/sshd.extraDataForInvalidCert")),
		Explain: "safety sweep (bounds, nil, nil-map, panic, overflow) of every function of processors/sshd for a fully symbolic (pid, line), plus the postconditions: no error unless the write failed, at most one event, at most one forwarded login and only with a succeeded event, an event only behind a recognised keyword, every subject/source value a substring of the line or a fixed placeholder",
	}
	m["C19"] = propDef{ID: "C19", Level: "proof",
		Units: append(sshdUnits(
			[]string{`^ensures:ctr`, `^pre:`},
			[]string{`^ensures:ctr`, `^pre:`},
			[]string{`^ensures:(ctr|ctrlabel|nokw|outcome)$`, `^pre:`},
			[]string{`^ensures:(ctr|nokw)$`, `^pre:`}),
			u("internal/metrics.(*PrometheusMetricsProvider).IncLogins")),
		Explain: "postconditions over the ghost counters ctr(method,outcome)/ctrsum: an emitted event implies exactly one increment in total, under a label matching the event's outcome and the message's method; a line without a recognised keyword changes no counter",
	}
	m["C05"] = propDef{ID: "C05", Level: "proof",
		Units: sshdUnits(
			[]string{`^ensures:(nosend|err)$`},
			[]string{`^ensures:(err|one|sendone|send|cancel|match|only|fields)$`, `^pre:`},
			[]string{`^ensures:(err|one|sendone|send|cancel|failnosend|outcome)$`, `^pre:`},
			[]string{`^ensures:(err|one|sendone|send|cancel)$`, `^pre:`}),
		Explain: "postconditions over the ghost traces out (events written) and sent(logins): write failure returns the error and forwards nothing; otherwise exactly one succeeded event is written and then either exactly one login is sent whose Source is the pointer that was written, whose PID is Atoi(pid) and whose CredUserID is the certificate key ID or 'unknown', stamped after the write, or the context was cancelled; failure handlers never send",
	}
	return m
}

func (w *World) runLemma(lu lemmaUnit, opts solveOpts, thorough bool) ([]*Obligation, []string) {
	return nil, nil
}

func (w *World) runStructural(name string) []*Obligation { return nil }

func buildReplay(w *World, id string, o *Obligation, repo string) *Replay {
	spec := ""
	if len(o.VCs) > 0 {
		spec = o.VCs[0].note
	}
	return &Replay{Property: id, Obligation: o.Name, Kind: o.Kind, Spec: spec, Status: o.Status, Solver: o.Detail, Model: trunc(o.Model, 20000)}
}
